//! Shared engine of C04 / C33: typed logical-expression generator over nullable columns, small-domain
//! evaluation tables, an INDEPENDENT row-at-a-time reference evaluator for the core operators and
//! helpers to evaluate `PhysicalExpr`s batch-wise / row-wise with per-row error localisation.
//!
//! The reference evaluator never calls engine kernels: it works on `V` values and only asks the
//! engine for static *types* (`Expr::get_type`), which are not the subject of C04/C33.

use arrow::array::*;
use arrow::datatypes::{DataType, Field, Schema, SchemaRef, TimeUnit};
use arrow::record_batch::RecordBatch;
use datafusion_common::tree_node::{TreeNode, TreeNodeRecursion};
use datafusion_common::{DFSchema, DFSchemaRef, ScalarValue, ToDFSchema};
use datafusion_expr::execution_props::ExecutionProps;
use datafusion_expr::expr::{Between, BinaryExpr, Case, Cast, InList, Like, ScalarFunction, TryCast};
use datafusion_expr::physical_planning_context::PhysicalPlanningContext;
use datafusion_expr::{Expr, ExprSchemable, Operator, ScalarUDF, col, lit};
use datafusion_physical_expr::{PhysicalExpr, create_physical_expr};
use std::cmp::Ordering;
use std::sync::Arc;
use vcommon::{Json, Rng, json};

// =====================================================================================
// values
// =====================================================================================

/// A logical cell value. Integers of every width, dates, timestamps and decimals (unscaled) are
/// `I`; Float32 is widened (exactly) to `F`; every string encoding is `S`.
#[derive(Clone, Debug)]
pub enum V {
    Null,
    B(bool),
    I(i128),
    F(f64),
    S(String),
}

impl V {
    pub fn is_null(&self) -> bool {
        matches!(self, V::Null)
    }
    /// value identity: NULL == NULL, floats bit-exact except that every NaN equals every NaN
    pub fn same(&self, o: &V) -> bool {
        match (self, o) {
            (V::Null, V::Null) => true,
            (V::B(a), V::B(b)) => a == b,
            (V::I(a), V::I(b)) => a == b,
            (V::F(a), V::F(b)) => (a.is_nan() && b.is_nan()) || a.to_bits() == b.to_bits(),
            (V::S(a), V::S(b)) => a == b,
            _ => false,
        }
    }
    pub fn to_json(&self) -> Json {
        match self {
            V::Null => Json::Null,
            V::B(b) => json!(b),
            V::I(i) => {
                if let Ok(x) = i64::try_from(*i) {
                    json!(x)
                } else {
                    json!(i.to_string())
                }
            }
            V::F(f) => json!(format!("{f:?}")),
            V::S(s) => json!(s),
        }
    }
}

pub fn row_json(env: &Env, row: &[V], only: &[usize]) -> Json {
    let mut m = vcommon::serde_json::Map::new();
    for &c in only {
        m.insert(env.cols[c].name.clone(), row[c].to_json());
    }
    Json::Object(m)
}

/// Logical value of an array cell.
pub fn cell_v(arr: &dyn Array, i: usize) -> V {
    if arr.is_null(i) {
        return V::Null;
    }
    macro_rules! prim {
        ($t:ty, $conv:expr) => {{
            let a = arr.as_any().downcast_ref::<$t>().unwrap();
            $conv(a.value(i))
        }};
    }
    match arr.data_type() {
        DataType::Null => V::Null,
        DataType::Boolean => prim!(BooleanArray, V::B),
        DataType::Int8 => prim!(Int8Array, |x| V::I(x as i128)),
        DataType::Int16 => prim!(Int16Array, |x| V::I(x as i128)),
        DataType::Int32 => prim!(Int32Array, |x| V::I(x as i128)),
        DataType::Int64 => prim!(Int64Array, |x| V::I(x as i128)),
        DataType::UInt8 => prim!(UInt8Array, |x| V::I(x as i128)),
        DataType::UInt16 => prim!(UInt16Array, |x| V::I(x as i128)),
        DataType::UInt32 => prim!(UInt32Array, |x| V::I(x as i128)),
        DataType::UInt64 => prim!(UInt64Array, |x| V::I(x as i128)),
        DataType::Float16 => prim!(Float16Array, |x: half::f16| V::F(x.to_f64())),
        DataType::Float32 => prim!(Float32Array, |x| V::F(x as f64)),
        DataType::Float64 => prim!(Float64Array, V::F),
        DataType::Utf8 => prim!(StringArray, |x: &str| V::S(x.to_string())),
        DataType::LargeUtf8 => prim!(LargeStringArray, |x: &str| V::S(x.to_string())),
        DataType::Utf8View => prim!(StringViewArray, |x: &str| V::S(x.to_string())),
        DataType::Date32 => prim!(Date32Array, |x| V::I(x as i128)),
        DataType::Date64 => prim!(Date64Array, |x| V::I(x as i128)),
        DataType::Timestamp(TimeUnit::Second, _) => prim!(TimestampSecondArray, |x| V::I(x as i128)),
        DataType::Timestamp(TimeUnit::Millisecond, _) => prim!(TimestampMillisecondArray, |x| V::I(x as i128)),
        DataType::Timestamp(TimeUnit::Microsecond, _) => prim!(TimestampMicrosecondArray, |x| V::I(x as i128)),
        DataType::Timestamp(TimeUnit::Nanosecond, _) => prim!(TimestampNanosecondArray, |x| V::I(x as i128)),
        DataType::Decimal128(_, _) => prim!(Decimal128Array, V::I),
        DataType::Dictionary(_, _) => {
            let d = arr.as_any_dictionary();
            let k = d.normalized_keys()[i];
            cell_v(d.values().as_ref(), k)
        }
        _ => {
            let opts = arrow::util::display::FormatOptions::default();
            match arrow::util::display::ArrayFormatter::try_new(arr, &opts) {
                Ok(f) => V::S(format!("{}", f.value(i))),
                Err(_) => V::S("<unprintable>".into()),
            }
        }
    }
}

pub fn scalar_v(s: &ScalarValue) -> V {
    match s.to_array() {
        Ok(a) => cell_v(a.as_ref(), 0),
        Err(_) => V::S(format!("{s:?}")),
    }
}

/// `v` as a `ScalarValue` of type `dt` (panics on a harness bug: value class does not fit the type).
pub fn v_scalar(dt: &DataType, v: &V) -> ScalarValue {
    if v.is_null() {
        return ScalarValue::try_from(dt).expect("typed null");
    }
    match (dt, v) {
        (DataType::Boolean, V::B(b)) => ScalarValue::Boolean(Some(*b)),
        (DataType::Int8, V::I(i)) => ScalarValue::Int8(Some(*i as i8)),
        (DataType::Int16, V::I(i)) => ScalarValue::Int16(Some(*i as i16)),
        (DataType::Int32, V::I(i)) => ScalarValue::Int32(Some(*i as i32)),
        (DataType::Int64, V::I(i)) => ScalarValue::Int64(Some(*i as i64)),
        (DataType::UInt8, V::I(i)) => ScalarValue::UInt8(Some(*i as u8)),
        (DataType::UInt16, V::I(i)) => ScalarValue::UInt16(Some(*i as u16)),
        (DataType::UInt32, V::I(i)) => ScalarValue::UInt32(Some(*i as u32)),
        (DataType::UInt64, V::I(i)) => ScalarValue::UInt64(Some(*i as u64)),
        (DataType::Float32, V::F(f)) => ScalarValue::Float32(Some(*f as f32)),
        (DataType::Float64, V::F(f)) => ScalarValue::Float64(Some(*f)),
        (DataType::Utf8, V::S(s)) => ScalarValue::Utf8(Some(s.clone())),
        (DataType::LargeUtf8, V::S(s)) => ScalarValue::LargeUtf8(Some(s.clone())),
        (DataType::Utf8View, V::S(s)) => ScalarValue::Utf8View(Some(s.clone())),
        (DataType::Date32, V::I(i)) => ScalarValue::Date32(Some(*i as i32)),
        (DataType::Date64, V::I(i)) => ScalarValue::Date64(Some(*i as i64)),
        (DataType::Timestamp(TimeUnit::Second, tz), V::I(i)) => ScalarValue::TimestampSecond(Some(*i as i64), tz.clone()),
        (DataType::Timestamp(TimeUnit::Millisecond, tz), V::I(i)) => ScalarValue::TimestampMillisecond(Some(*i as i64), tz.clone()),
        (DataType::Timestamp(TimeUnit::Microsecond, tz), V::I(i)) => ScalarValue::TimestampMicrosecond(Some(*i as i64), tz.clone()),
        (DataType::Timestamp(TimeUnit::Nanosecond, tz), V::I(i)) => ScalarValue::TimestampNanosecond(Some(*i as i64), tz.clone()),
        (DataType::Decimal128(p, s), V::I(i)) => ScalarValue::Decimal128(Some(*i), *p, *s),
        (DataType::Dictionary(k, inner), v) => ScalarValue::Dictionary(k.clone(), Box::new(v_scalar(inner, v))),
        _ => panic!("harness: value {v:?} does not fit type {dt}"),
    }
}

pub fn make_array(dt: &DataType, vals: &[V]) -> ArrayRef {
    if vals.is_empty() {
        return new_empty_array(dt);
    }
    macro_rules! prim {
        ($arr:ty, $nat:ty) => {{
            let a: $arr = vals.iter().map(|v| if let V::I(i) = v { Some(*i as $nat) } else { None }).collect();
            Arc::new(a) as ArrayRef
        }};
    }
    match dt {
        DataType::Boolean => Arc::new(vals.iter().map(|v| if let V::B(b) = v { Some(*b) } else { None }).collect::<BooleanArray>()),
        DataType::Int8 => prim!(Int8Array, i8),
        DataType::Int16 => prim!(Int16Array, i16),
        DataType::Int32 => prim!(Int32Array, i32),
        DataType::Int64 => prim!(Int64Array, i64),
        DataType::UInt8 => prim!(UInt8Array, u8),
        DataType::UInt16 => prim!(UInt16Array, u16),
        DataType::UInt32 => prim!(UInt32Array, u32),
        DataType::UInt64 => prim!(UInt64Array, u64),
        DataType::Date32 => prim!(Date32Array, i32),
        DataType::Float64 => Arc::new(vals.iter().map(|v| if let V::F(f) = v { Some(*f) } else { None }).collect::<Float64Array>()),
        DataType::Float32 => Arc::new(vals.iter().map(|v| if let V::F(f) = v { Some(*f as f32) } else { None }).collect::<Float32Array>()),
        DataType::Utf8 => Arc::new(vals.iter().map(|v| if let V::S(s) = v { Some(s.as_str()) } else { None }).collect::<StringArray>()),
        DataType::Dictionary(_, inner) => {
            let plain = make_array(inner, vals);
            arrow::compute::cast(&plain, dt).expect("harness dictionary array")
        }
        _ => ScalarValue::iter_to_array(vals.iter().map(|v| v_scalar(dt, v))).expect("harness array"),
    }
}

// =====================================================================================
// environment: schema + planning helpers
// =====================================================================================

#[derive(Clone, Debug)]
pub struct ColSpec {
    pub name: String,
    pub dt: DataType,
    pub nullable: bool,
}

pub fn cs(name: &str, dt: DataType, nullable: bool) -> ColSpec {
    ColSpec { name: name.to_string(), dt, nullable }
}

pub struct Env {
    pub cols: Vec<ColSpec>,
    pub schema: SchemaRef,
    pub df: DFSchemaRef,
    pub props: ExecutionProps,
}

pub const TS: DataType = DataType::Timestamp(TimeUnit::Nanosecond, None);
pub const DEC: DataType = DataType::Decimal128(10, 2);

impl Env {
    pub fn new(cols: Vec<ColSpec>) -> Env {
        let schema: SchemaRef = Arc::new(Schema::new(cols.iter().map(|c| Field::new(&c.name, c.dt.clone(), c.nullable)).collect::<Vec<_>>()));
        let df: DFSchemaRef = Arc::new(schema.as_ref().clone().to_dfschema().expect("dfschema"));
        Env { cols, schema, df, props: ExecutionProps::new() }
    }

    /// The standard column set of C04/C33: two nullable columns of the frequently compared types,
    /// one of the others, and NOT NULL variants (several simplifier rules depend on nullability).
    pub fn standard() -> Env {
        Env::new(vec![
            cs("b", DataType::Boolean, true),
            cs("b2", DataType::Boolean, true),
            cs("bn", DataType::Boolean, false),
            cs("i8", DataType::Int8, true),
            cs("i32", DataType::Int32, true),
            cs("i32b", DataType::Int32, true),
            cs("i32n", DataType::Int32, false),
            cs("i64", DataType::Int64, true),
            cs("u8", DataType::UInt8, true),
            cs("f64", DataType::Float64, true),
            cs("f64b", DataType::Float64, true),
            cs("s", DataType::Utf8, true),
            cs("s2", DataType::Utf8, true),
            cs("sn", DataType::Utf8, false),
            cs("d32", DataType::Date32, true),
            cs("ts", TS, true),
            cs("dec", DEC, true),
            cs("decn", DEC, false),
        ])
    }

    pub fn idx(&self, name: &str) -> usize {
        self.cols.iter().position(|c| c.name == name).unwrap_or_else(|| panic!("harness: no column {name}"))
    }

    pub fn coerce(&self, e: Expr) -> datafusion_common::Result<Expr> {
        use datafusion_common::tree_node::TransformedResult;
        let mut rw = datafusion_optimizer::analyzer::type_coercion::TypeCoercionRewriter::new(self.df.as_ref());
        e.rewrite(&mut rw).data()
    }

    pub fn physical(&self, e: &Expr) -> datafusion_common::Result<Arc<dyn PhysicalExpr>> {
        create_physical_expr(e, self.df.as_ref(), &self.props, &PhysicalPlanningContext::default())
    }

    pub fn batch(&self, rows: &[Vec<V>]) -> RecordBatch {
        let arrays: Vec<ArrayRef> = self
            .cols
            .iter()
            .enumerate()
            .map(|(c, spec)| {
                let vals: Vec<V> = rows.iter().map(|r| r[c].clone()).collect();
                make_array(&spec.dt, &vals)
            })
            .collect();
        if rows.is_empty() {
            return RecordBatch::new_empty(self.schema.clone());
        }
        RecordBatch::try_new(self.schema.clone(), arrays).expect("harness batch")
    }

    pub fn schema_json(&self) -> Json {
        json!(self.cols.iter().map(|c| format!("{}:{}{}", c.name, c.dt, if c.nullable { "" } else { " NOT NULL" })).collect::<Vec<_>>())
    }
}

pub fn dfschema_of(schema: &Schema) -> DFSchema {
    schema.clone().to_dfschema().expect("dfschema")
}

// =====================================================================================
// small domains and evaluation tables
// =====================================================================================

pub fn int_range(dt: &DataType) -> Option<(i128, i128)> {
    Some(match dt {
        DataType::Int8 => (i8::MIN as i128, i8::MAX as i128),
        DataType::Int16 => (i16::MIN as i128, i16::MAX as i128),
        DataType::Int32 | DataType::Date32 => (i32::MIN as i128, i32::MAX as i128),
        DataType::Int64 | DataType::Date64 | DataType::Timestamp(_, _) => (i64::MIN as i128, i64::MAX as i128),
        DataType::UInt8 => (0, u8::MAX as i128),
        DataType::UInt16 => (0, u16::MAX as i128),
        DataType::UInt32 => (0, u32::MAX as i128),
        DataType::UInt64 => (0, u64::MAX as i128),
        DataType::Decimal128(p, _) => {
            let m = 10i128.pow(*p as u32) - 1;
            (-m, m)
        }
        _ => return None,
    })
}

pub const DAY_NS: i128 = 86_400_000_000_000;
/// 2024-01-01 as days since the epoch
pub const D_2024: i128 = 19723;

/// The small per-type domain (NULL first when nullable).
pub fn domain(dt: &DataType, nullable: bool) -> Vec<V> {
    let mut d: Vec<V> = match dt {
        DataType::Boolean => vec![V::B(true), V::B(false)],
        DataType::Int8 | DataType::Int16 | DataType::Int32 | DataType::Int64 => {
            let (lo, hi) = int_range(dt).unwrap();
            vec![lo, lo + 1, -1, 0, 1, hi - 1, hi].into_iter().map(V::I).collect()
        }
        DataType::UInt8 | DataType::UInt16 | DataType::UInt32 | DataType::UInt64 => {
            let (_, hi) = int_range(dt).unwrap();
            vec![0, 1, 2, hi / 2, hi / 2 + 1, hi - 1, hi].into_iter().map(V::I).collect()
        }
        DataType::Float32 | DataType::Float64 => {
            vec![f64::NEG_INFINITY, -1.5, -0.0, 0.0, 1.0, 1.5, f64::INFINITY, f64::NAN].into_iter().map(V::F).collect()
        }
        DataType::Utf8 | DataType::LargeUtf8 | DataType::Utf8View => ["", "a", "A", "ab", "%", "_", "a%b"].iter().map(|s| V::S(s.to_string())).collect(),
        DataType::Dictionary(_, inner) => return domain(inner, nullable),
        // around year boundaries (date_part / date_trunc preimage edges), the epoch and far dates
        DataType::Date32 => vec![-1, 0, D_2024 - 1, D_2024, D_2024 + 165, D_2024 + 365, D_2024 + 366, -25567].into_iter().map(V::I).collect(),
        DataType::Date64 => vec![-1, 0, (D_2024 - 1) * 86_400_000, D_2024 * 86_400_000, D_2024 * 86_400_000 + 1].into_iter().map(V::I).collect(),
        DataType::Timestamp(unit, _) => {
            let per_s: i128 = match unit {
                TimeUnit::Second => 1,
                TimeUnit::Millisecond => 1_000,
                TimeUnit::Microsecond => 1_000_000,
                TimeUnit::Nanosecond => 1_000_000_000,
            };
            let day = 86_400 * per_s;
            vec![-1, 0, D_2024 * day - 1, D_2024 * day, D_2024 * day + 1, D_2024 * day + 45_000 * per_s, (D_2024 + 366) * day - 1, (D_2024 + 366) * day]
                .into_iter()
                .map(V::I)
                .collect()
        }
        DataType::Decimal128(p, s) => {
            let (lo, hi) = int_range(dt).unwrap();
            let one = 10i128.pow(*s as u32);
            let _ = p;
            vec![lo, -one, -1, 0, 1, one, 5 * one + 4 * one / 10, 5 * one, hi].into_iter().map(V::I).collect()
        }
        other => panic!("harness: no domain for {other}"),
    };
    if nullable {
        d.insert(0, V::Null);
    }
    d
}

pub fn referenced_cols(e: &Expr, env: &Env) -> Vec<usize> {
    let mut out: Vec<usize> = e.column_refs().iter().filter_map(|c| env.cols.iter().position(|s| s.name == c.name)).collect();
    out.sort();
    out.dedup();
    out
}

pub fn literals_of(e: &Expr) -> Vec<ScalarValue> {
    let mut out = vec![];
    let _ = e.apply(|n| {
        if let Expr::Literal(s, _) = n {
            if !s.is_null() {
                out.push(s.clone());
            }
        }
        Ok(TreeNodeRecursion::Continue)
    });
    out
}

fn push_unique(d: &mut Vec<V>, v: V) {
    if !d.iter().any(|x| x.same(&v)) {
        d.push(v);
    }
}

/// Domain of one column for one expression: the base domain plus the neighbourhood of every literal
/// of the expression that is meaningful for the column type (so rewrite boundaries are hit).
pub fn domain_for(spec: &ColSpec, lits: &[ScalarValue], max_extra: usize) -> Vec<V> {
    let mut d = domain(&spec.dt, spec.nullable);
    let base = d.len();
    let dt = match &spec.dt {
        DataType::Dictionary(_, inner) => inner.as_ref(),
        o => o,
    };
    for l in lits {
        if d.len() >= base + max_extra {
            break;
        }
        let lv = scalar_v(l);
        let lt = l.data_type();
        match (dt, &lv) {
            (DataType::Utf8 | DataType::LargeUtf8 | DataType::Utf8View, V::S(s)) => {
                push_unique(&mut d, V::S(s.clone()));
                let stripped: String = s.chars().filter(|c| !matches!(c, '%' | '_' | '\\' | '^' | '$' | '.' | '*' | '(' | ')' | '|')).collect();
                push_unique(&mut d, V::S(stripped.clone()));
                push_unique(&mut d, V::S(format!("{stripped}x")));
            }
            (DataType::Float32 | DataType::Float64, V::F(f)) => {
                push_unique(&mut d, V::F(*f));
                if f.is_finite() {
                    push_unique(&mut d, V::F(*f + 0.5));
                    push_unique(&mut d, V::F(*f - 0.5));
                }
            }
            (DataType::Float32 | DataType::Float64, V::I(i)) if lt.is_integer() => {
                push_unique(&mut d, V::F(*i as f64));
                push_unique(&mut d, V::F(*i as f64 + 0.5));
            }
            (t, V::I(i)) if int_range(t).is_some() => {
                let (lo, hi) = int_range(t).unwrap();
                // bring the literal to the unit of the column
                let scaled: Option<i128> = match (t, &lt) {
                    (DataType::Decimal128(_, s), DataType::Decimal128(_, ls)) => {
                        if s >= ls { i.checked_mul(10i128.pow((*s - *ls) as u32)) } else { Some(*i / 10i128.pow((*ls - *s) as u32)) }
                    }
                    (DataType::Decimal128(_, s), lt) if lt.is_integer() => i.checked_mul(10i128.pow(*s as u32)),
                    (t, DataType::Decimal128(_, ls)) if t.is_integer() => Some(*i / 10i128.pow(*ls as u32)),
                    (DataType::Timestamp(_, _), DataType::Date32) => i.checked_mul(DAY_NS),
                    (DataType::Date32, DataType::Timestamp(TimeUnit::Nanosecond, _)) => Some(i.div_euclid(DAY_NS)),
                    _ => Some(*i),
                };
                if let Some(x) = scaled {
                    for y in [x - 1, x, x + 1] {
                        if y >= lo && y <= hi {
                            push_unique(&mut d, V::I(y));
                        }
                    }
                }
            }
            (t, V::F(f)) if int_range(t).is_some() && f.is_finite() => {
                let (lo, hi) = int_range(t).unwrap();
                let scale = if let DataType::Decimal128(_, s) = t { 10f64.powi(*s as i32) } else { 1.0 };
                let x = (f * scale).floor();
                if x.abs() < 1e30 {
                    for y in [x as i128, x as i128 + 1] {
                        if y >= lo && y <= hi {
                            push_unique(&mut d, V::I(y));
                        }
                    }
                }
            }
            _ => {}
        }
    }
    d
}

/// Evaluation table of an expression: exhaustive product of the (literal-aware) small domains of
/// the referenced columns when it fits `cap`, otherwise a covering sample of the product; plus
/// `n_random` random rows. Unreferenced columns get random domain values.
pub fn build_rows(env: &Env, e: &Expr, rng: &mut Rng, cap: usize, n_random: usize) -> (Vec<Vec<V>>, bool) {
    let refs = referenced_cols(e, env);
    let lits = literals_of(e);
    let all_dom: Vec<Vec<V>> = env.cols.iter().map(|c| domain(&c.dt, c.nullable)).collect();
    let ref_dom: Vec<Vec<V>> = refs.iter().map(|&c| domain_for(&env.cols[c], &lits, 9)).collect();
    let product: usize = ref_dom.iter().map(|d| d.len()).fold(1usize, |a, b| a.saturating_mul(b));
    let mut rows: Vec<Vec<V>> = vec![];
    let fresh_row = |rng: &mut Rng| -> Vec<V> { all_dom.iter().map(|d| rng.pick(d).clone()).collect() };
    let exhaustive = product <= cap;
    if exhaustive {
        let mut idx = vec![0usize; refs.len()];
        for _ in 0..product {
            let mut r = fresh_row(rng);
            for (k, &c) in refs.iter().enumerate() {
                r[c] = ref_dom[k][idx[k]].clone();
            }
            rows.push(r);
            for k in 0..refs.len() {
                idx[k] += 1;
                if idx[k] < ref_dom[k].len() {
                    break;
                }
                idx[k] = 0;
            }
        }
        if refs.is_empty() {
            // constant expression: still give it a few rows
            rows.push(fresh_row(rng));
            rows.push(fresh_row(rng));
        }
    } else {
        // covering sample: every domain value of every referenced column appears, pairs at random
        let longest = ref_dom.iter().map(|d| d.len()).max().unwrap_or(1);
        for i in 0..cap {
            let mut r = fresh_row(rng);
            for (k, &c) in refs.iter().enumerate() {
                let d = &ref_dom[k];
                r[c] = if i < longest * 2 { d[(i + k * (i / longest)) % d.len()].clone() } else { rng.pick(d).clone() };
            }
            rows.push(r);
        }
    }
    for _ in 0..n_random {
        let mut r = fresh_row(rng);
        for (k, &c) in refs.iter().enumerate() {
            r[c] = random_value(&env.cols[c], &ref_dom[k], rng);
        }
        rows.push(r);
    }
    (rows, exhaustive)
}

/// a random value of the column type: half from the (extended) domain, half free
pub fn random_value(spec: &ColSpec, dom: &[V], rng: &mut Rng) -> V {
    if rng.chance(1, 2) {
        return rng.pick(dom).clone();
    }
    if spec.nullable && rng.chance(1, 8) {
        return V::Null;
    }
    let dt = match &spec.dt {
        DataType::Dictionary(_, inner) => inner.as_ref(),
        o => o,
    };
    match dt {
        DataType::Boolean => V::B(rng.bool()),
        DataType::Float32 | DataType::Float64 => V::F((rng.range(-40, 40) as f64) / 4.0),
        DataType::Utf8 | DataType::LargeUtf8 | DataType::Utf8View => {
            let n = rng.usize(4);
            V::S((0..n).map(|_| *rng.pick(&['a', 'b', 'A', 'B', '%', '_', 'x'])).collect())
        }
        DataType::Date32 => V::I(D_2024 + rng.range(-800, 800) as i128),
        DataType::Timestamp(TimeUnit::Nanosecond, _) => V::I((D_2024 + rng.range(-800, 800) as i128) * DAY_NS + rng.range(0, 86_399) as i128 * 1_000_000_000),
        t => {
            let (lo, hi) = int_range(t).unwrap_or((0, 1));
            if rng.chance(2, 3) {
                V::I((rng.range(-12, 12) as i128).clamp(lo, hi))
            } else {
                let span = (hi - lo) as u128;
                V::I(lo + (rng.next_u64() as u128 % (span + 1).max(1)) as i128)
            }
        }
    }
}

// =====================================================================================
// engine-side evaluation helpers
// =====================================================================================

/// Per-row result of evaluating a physical expression: `None` = that row raises an error.
pub struct Evald {
    pub dt: Option<DataType>,
    pub vals: Vec<Option<V>>,
    /// error of the full-batch evaluation (rows were then localised one by one)
    pub batch_err: Option<String>,
    pub panicked: bool,
}

impl Evald {
    pub fn n_ok(&self) -> usize {
        self.vals.iter().filter(|v| v.is_some()).count()
    }
}

/// Evaluate on the whole batch; a panic is reported as `Err("panic: ..")`.
pub fn eval_batch(pe: &Arc<dyn PhysicalExpr>, batch: &RecordBatch) -> Result<ArrayRef, String> {
    match vcommon::par::guard(|| pe.evaluate(batch).and_then(|cv| cv.into_array(batch.num_rows()))) {
        Ok(Ok(a)) => Ok(a),
        Ok(Err(e)) => Err(e.to_string()),
        Err(p) => Err(format!("panic: {p}")),
    }
}

/// Evaluate every row as its own 1-row batch.
pub fn eval_rowwise(pe: &Arc<dyn PhysicalExpr>, batch: &RecordBatch) -> Evald {
    let mut out = Evald { dt: None, vals: Vec::with_capacity(batch.num_rows()), batch_err: None, panicked: false };
    for i in 0..batch.num_rows() {
        let one = batch.slice(i, 1);
        match eval_batch(pe, &one) {
            Ok(a) => {
                if out.dt.is_none() {
                    out.dt = Some(a.data_type().clone());
                }
                out.vals.push(Some(cell_v(a.as_ref(), 0)));
            }
            Err(e) => {
                if e.starts_with("panic: ") {
                    out.panicked = true;
                }
                out.vals.push(None)
            }
        }
    }
    out
}

/// Whole batch first; when that errors, localise the erroring rows with 1-row batches.
pub fn eval_guarded(pe: &Arc<dyn PhysicalExpr>, batch: &RecordBatch) -> Evald {
    match eval_batch(pe, batch) {
        Ok(a) => Evald { dt: Some(a.data_type().clone()), vals: (0..a.len()).map(|i| Some(cell_v(a.as_ref(), i))).collect(), batch_err: None, panicked: false },
        Err(e) => {
            let mut r = eval_rowwise(pe, batch);
            if e.starts_with("panic: ") {
                r.panicked = true;
            }
            r.batch_err = Some(e);
            r
        }
    }
}

// =====================================================================================
// independent reference evaluator
// =====================================================================================

#[derive(Clone, Copy, Debug, PartialEq)]
pub enum Kind {
    Int,
    Float,
    Str,
    Bool,
}

#[derive(Clone, Copy, Debug, PartialEq)]
pub enum NumTy {
    Int { bits: u32, signed: bool },
    F32,
    F64,
}

#[derive(Clone, Copy, Debug, PartialEq)]
pub enum IsK {
    Null,
    NotNull,
    True,
    False,
    Unknown,
    NotTrue,
    NotFalse,
    NotUnknown,
}

#[derive(Clone, Debug)]
pub enum R {
    Col(usize),
    Lit(V),
    And(Box<R>, Box<R>),
    Or(Box<R>, Box<R>),
    Not(Box<R>),
    Cmp(Operator, Kind, Box<R>, Box<R>),
    Arith(Operator, NumTy, Box<R>, Box<R>),
    Neg(NumTy, Box<R>),
    Is(IsK, Box<R>),
    InList { e: Box<R>, list: Vec<R>, negated: bool, kind: Kind },
    Case { base: Option<(Box<R>, Kind)>, whens: Vec<(R, R)>, els: Option<Box<R>> },
    Cast { from: DataType, to: DataType, try_: bool, e: Box<R> },
    Like { negated: bool, ci: bool, e: Box<R>, pat: Box<R> },
    Coalesce(Vec<R>),
    NullIf(Kind, Box<R>, Box<R>),
    Abs(NumTy, Box<R>),
    Upper(Box<R>),
    Lower(Box<R>),
    Length(Box<R>),
    Concat(Vec<R>),
    StartsWith(Box<R>, Box<R>),
}

#[derive(Clone, Debug, PartialEq)]
pub enum RErr {
    /// the row raises a runtime error under eager evaluation (CASE/COALESCE branches are lazy)
    Error,
    /// outside the reference's fragment for this row (e.g. non-ASCII case folding)
    Unsup,
}

fn kind_of(dt: &DataType) -> Option<Kind> {
    Some(match dt {
        DataType::Boolean => Kind::Bool,
        DataType::Float32 | DataType::Float64 => Kind::Float,
        DataType::Utf8 | DataType::LargeUtf8 | DataType::Utf8View => Kind::Str,
        DataType::Dictionary(_, inner) => return kind_of(inner),
        t if int_range(t).is_some() => Kind::Int,
        _ => return None,
    })
}

fn numty_of(dt: &DataType) -> Option<NumTy> {
    Some(match dt {
        DataType::Int8 => NumTy::Int { bits: 8, signed: true },
        DataType::Int16 => NumTy::Int { bits: 16, signed: true },
        DataType::Int32 => NumTy::Int { bits: 32, signed: true },
        DataType::Int64 => NumTy::Int { bits: 64, signed: true },
        DataType::UInt8 => NumTy::Int { bits: 8, signed: false },
        DataType::UInt16 => NumTy::Int { bits: 16, signed: false },
        DataType::UInt32 => NumTy::Int { bits: 32, signed: false },
        DataType::UInt64 => NumTy::Int { bits: 64, signed: false },
        DataType::Float32 => NumTy::F32,
        DataType::Float64 => NumTy::F64,
        _ => return None,
    })
}

fn wrap_int(v: i128, bits: u32, signed: bool) -> i128 {
    let m = 1i128 << bits;
    let x = v.rem_euclid(m);
    if signed && x >= m / 2 { x - m } else { x }
}

/// same logical comparison type (after coercion both sides of a comparison have one type)
fn cmp_compatible(a: &DataType, b: &DataType) -> bool {
    fn strip(t: &DataType) -> &DataType {
        match t {
            DataType::Dictionary(_, i) => i.as_ref(),
            o => o,
        }
    }
    let (a, b) = (strip(a), strip(b));
    if a == b {
        return true;
    }
    let is_str = |t: &DataType| matches!(t, DataType::Utf8 | DataType::LargeUtf8 | DataType::Utf8View);
    is_str(a) && is_str(b)
}

pub fn compile(e: &Expr, env: &Env) -> Result<R, String> {
    let ty = |x: &Expr| x.get_type(env.df.as_ref()).map_err(|e| format!("type: {e}"));
    let bx = |x: &Expr| compile(x, env).map(Box::new);
    Ok(match e {
        Expr::Alias(a) => compile(&a.expr, env)?,
        Expr::Column(c) => R::Col(env.cols.iter().position(|s| s.name == c.name).ok_or("unknown column")?),
        Expr::Literal(s, _) => {
            if kind_of(&s.data_type()).is_none() && !matches!(s.data_type(), DataType::Null) {
                return Err(format!("literal type {}", s.data_type()));
            }
            R::Lit(scalar_v(s))
        }
        Expr::Not(x) => R::Not(bx(x)?),
        Expr::Negative(x) => R::Neg(numty_of(&ty(x)?).ok_or("negative type")?, bx(x)?),
        Expr::IsNull(x) => R::Is(IsK::Null, bx(x)?),
        Expr::IsNotNull(x) => R::Is(IsK::NotNull, bx(x)?),
        Expr::IsTrue(x) => R::Is(IsK::True, bx(x)?),
        Expr::IsFalse(x) => R::Is(IsK::False, bx(x)?),
        Expr::IsUnknown(x) => R::Is(IsK::Unknown, bx(x)?),
        Expr::IsNotTrue(x) => R::Is(IsK::NotTrue, bx(x)?),
        Expr::IsNotFalse(x) => R::Is(IsK::NotFalse, bx(x)?),
        Expr::IsNotUnknown(x) => R::Is(IsK::NotUnknown, bx(x)?),
        Expr::BinaryExpr(BinaryExpr { left, op, right }) => match op {
            Operator::And => R::And(bx(left)?, bx(right)?),
            Operator::Or => R::Or(bx(left)?, bx(right)?),
            Operator::Eq | Operator::NotEq | Operator::Lt | Operator::LtEq | Operator::Gt | Operator::GtEq | Operator::IsDistinctFrom | Operator::IsNotDistinctFrom => {
                let (lt, rt) = (ty(left)?, ty(right)?);
                if !cmp_compatible(&lt, &rt) && !matches!(lt, DataType::Null) && !matches!(rt, DataType::Null) {
                    return Err(format!("uncoerced comparison {lt} vs {rt}"));
                }
                let k = kind_of(if matches!(lt, DataType::Null) { &rt } else { &lt }).unwrap_or(Kind::Bool);
                R::Cmp(*op, k, bx(left)?, bx(right)?)
            }
            Operator::Plus | Operator::Minus | Operator::Multiply | Operator::Divide | Operator::Modulo => {
                let (lt, rt, ot) = (ty(left)?, ty(right)?, ty(e)?);
                if lt != rt || lt != ot {
                    return Err(format!("arithmetic {lt} {op} {rt} -> {ot}"));
                }
                R::Arith(*op, numty_of(&ot).ok_or(format!("arithmetic on {ot}"))?, bx(left)?, bx(right)?)
            }
            other => return Err(format!("operator {other}")),
        },
        Expr::Between(Between { expr, negated, low, high }) => {
            let (t, lt, ht) = (ty(expr)?, ty(low)?, ty(high)?);
            if !cmp_compatible(&t, &lt) || !cmp_compatible(&t, &ht) {
                return Err("uncoerced between".into());
            }
            let k = kind_of(&t).ok_or("between type")?;
            let (x, lo, hi) = (bx(expr)?, bx(low)?, bx(high)?);
            if *negated {
                R::Or(Box::new(R::Cmp(Operator::Lt, k, x.clone(), lo)), Box::new(R::Cmp(Operator::Gt, k, x, hi)))
            } else {
                R::And(Box::new(R::Cmp(Operator::GtEq, k, x.clone(), lo)), Box::new(R::Cmp(Operator::LtEq, k, x, hi)))
            }
        }
        Expr::InList(InList { expr, list, negated }) => {
            let t = ty(expr)?;
            for l in list {
                let lt = ty(l)?;
                if !cmp_compatible(&t, &lt) && !matches!(lt, DataType::Null) {
                    return Err(format!("uncoerced in-list {t} vs {lt}"));
                }
            }
            R::InList { e: bx(expr)?, list: list.iter().map(|l| compile(l, env)).collect::<Result<_, _>>()?, negated: *negated, kind: kind_of(&t).ok_or("in-list type")? }
        }
        Expr::Case(Case { expr, when_then_expr, else_expr }) => {
            let base = match expr {
                Some(b) => {
                    let t = ty(b)?;
                    for (w, _) in when_then_expr {
                        let wt = ty(w)?;
                        if !cmp_compatible(&t, &wt) && !matches!(wt, DataType::Null) {
                            return Err(format!("uncoerced case {t} vs {wt}"));
                        }
                    }
                    Some((bx(b)?, kind_of(&t).ok_or("case base type")?))
                }
                None => None,
            };
            let ot = ty(e)?;
            for (_, t) in when_then_expr {
                let tt = ty(t)?;
                if tt != ot && !matches!(tt, DataType::Null) {
                    return Err(format!("uncoerced case branch {tt} vs {ot}"));
                }
            }
            if let Some(x) = else_expr {
                let tt = ty(x)?;
                if tt != ot && !matches!(tt, DataType::Null) {
                    return Err(format!("uncoerced case else {tt} vs {ot}"));
                }
            }
            R::Case {
                base,
                whens: when_then_expr.iter().map(|(w, t)| Ok((compile(w, env)?, compile(t, env)?))).collect::<Result<_, String>>()?,
                els: match else_expr {
                    Some(x) => Some(bx(x)?),
                    None => None,
                },
            }
        }
        Expr::Cast(Cast { expr, field }) => {
            let from = ty(expr)?;
            let to = field.data_type().clone();
            cast_supported(&from, &to)?;
            R::Cast { from, to, try_: false, e: bx(expr)? }
        }
        Expr::TryCast(TryCast { expr, field }) => {
            let from = ty(expr)?;
            let to = field.data_type().clone();
            cast_supported(&from, &to)?;
            R::Cast { from, to, try_: true, e: bx(expr)? }
        }
        Expr::Like(Like { negated, expr, pattern, escape_char, case_insensitive }) => {
            if escape_char.is_some_and(|c| c != '\\') {
                return Err("escape char".into());
            }
            if kind_of(&ty(expr)?) != Some(Kind::Str) {
                return Err("like on non-string".into());
            }
            R::Like { negated: *negated, ci: *case_insensitive, e: bx(expr)?, pat: bx(pattern)? }
        }
        Expr::ScalarFunction(ScalarFunction { func, args }) => {
            let a = |i: usize| -> Result<Box<R>, String> { bx(args.get(i).ok_or("arity")?) };
            let all = || -> Result<Vec<R>, String> { args.iter().map(|x| compile(x, env)).collect() };
            let ot = ty(e)?;
            match func.name() {
                "coalesce" => {
                    for x in args {
                        let t = ty(x)?;
                        if t != ot && !matches!(t, DataType::Null) {
                            return Err("uncoerced coalesce".into());
                        }
                    }
                    R::Coalesce(all()?)
                }
                "nullif" => {
                    let (t0, t1) = (ty(&args[0])?, ty(&args[1])?);
                    if !cmp_compatible(&t0, &t1) || t0 != ot {
                        return Err("uncoerced nullif".into());
                    }
                    R::NullIf(kind_of(&t0).ok_or("nullif type")?, a(0)?, a(1)?)
                }
                "abs" => {
                    let t = ty(&args[0])?;
                    if t != ot {
                        return Err("abs type".into());
                    }
                    R::Abs(numty_of(&t).ok_or("abs type")?, a(0)?)
                }
                "upper" | "lower" | "character_length" | "starts_with" | "concat" => {
                    for x in args {
                        if kind_of(&ty(x)?) != Some(Kind::Str) {
                            return Err("string function on non-string".into());
                        }
                    }
                    match func.name() {
                        "upper" => R::Upper(a(0)?),
                        "lower" => R::Lower(a(0)?),
                        "character_length" => R::Length(a(0)?),
                        "starts_with" => R::StartsWith(a(0)?, a(1)?),
                        _ => R::Concat(all()?),
                    }
                }
                other => return Err(format!("function {other}")),
            }
        }
        other => return Err(format!("node {}", other.variant_name())),
    })
}

fn cast_supported(from: &DataType, to: &DataType) -> Result<(), String> {
    let is_int = |t: &DataType| t.is_integer();
    let is_str = |t: &DataType| matches!(t, DataType::Utf8 | DataType::LargeUtf8 | DataType::Utf8View);
    let ok = from == to
        || matches!(from, DataType::Null)
        || (is_int(from) && is_int(to))
        || (is_int(from) && matches!(to, DataType::Float64))
        || (matches!(from, DataType::Float64) && is_int(to))
        || (is_int(from) && matches!(to, DataType::Decimal128(_, s) if *s >= 0))
        || (matches!((from, to), (DataType::Decimal128(_, s1), DataType::Decimal128(_, s2)) if s2 >= s1 && *s1 >= 0))
        || (is_int(from) && is_str(to))
        || (is_str(from) && is_str(to));
    if ok { Ok(()) } else { Err(format!("cast {from} -> {to}")) }
}

thread_local! {
    static MEMBERSHIP_BITWISE: std::cell::Cell<bool> = const { std::cell::Cell::new(false) };
}

/// Diagnostic mode of the reference: IN-list / simple-CASE / NULLIF membership tests compare floats
/// by bit pattern (`-0.0` and `+0.0` distinct) instead of with the `=` operator's semantics. Used only
/// to *classify* a disagreement (root cause: the engine's membership kernels do not normalise zeros).
pub fn set_membership_bitwise(on: bool) {
    MEMBERSHIP_BITWISE.with(|c| c.set(on));
}

fn cmp_member(k: Kind, a: &V, b: &V) -> Result<Ordering, RErr> {
    if k == Kind::Float && MEMBERSHIP_BITWISE.with(|c| c.get()) {
        if let (V::F(x), V::F(y)) = (a, b) {
            return Ok(x.total_cmp(y));
        }
    }
    cmp_kind(k, a, b)
}

pub fn cmp_kind(k: Kind, a: &V, b: &V) -> Result<Ordering, RErr> {
    Ok(match (k, a, b) {
        (Kind::Int, V::I(x), V::I(y)) => x.cmp(y),
        (Kind::Bool, V::B(x), V::B(y)) => x.cmp(y),
        (Kind::Str, V::S(x), V::S(y)) => x.as_bytes().cmp(y.as_bytes()),
        (Kind::Float, V::F(x), V::F(y)) => {
            // the engine: IEEE totalOrder after normalising -0.0 to +0.0
            let n = |f: f64| if f == 0.0 { 0.0 } else { f };
            n(*x).total_cmp(&n(*y))
        }
        _ => return Err(RErr::Unsup),
    })
}

fn b3(v: &V) -> Result<Option<bool>, RErr> {
    match v {
        V::Null => Ok(None),
        V::B(b) => Ok(Some(*b)),
        _ => Err(RErr::Unsup),
    }
}

fn from_b3(b: Option<bool>) -> V {
    match b {
        None => V::Null,
        Some(x) => V::B(x),
    }
}

/// `LIKE` with `%`, `_` and backslash escape (a trailing lone backslash is a literal backslash).
pub fn like_match(s: &str, p: &str) -> bool {
    #[derive(Clone, Copy, PartialEq)]
    enum T {
        Any,
        One,
        Ch(char),
    }
    let mut toks = vec![];
    let mut it = p.chars().peekable();
    while let Some(c) = it.next() {
        match c {
            '\\' => match it.next() {
                Some(n) => toks.push(T::Ch(n)),
                None => toks.push(T::Ch('\\')),
            },
            '%' => toks.push(T::Any),
            '_' => toks.push(T::One),
            c => toks.push(T::Ch(c)),
        }
    }
    let sc: Vec<char> = s.chars().collect();
    // dp[j] = tokens[..i] matches s[..j]
    let mut dp = vec![false; sc.len() + 1];
    dp[0] = true;
    for t in &toks {
        let mut nd = vec![false; sc.len() + 1];
        match t {
            T::Any => {
                let mut seen = false;
                for j in 0..=sc.len() {
                    seen |= dp[j];
                    nd[j] = seen;
                }
            }
            T::One => {
                for j in 1..=sc.len() {
                    nd[j] = dp[j - 1];
                }
            }
            T::Ch(c) => {
                for j in 1..=sc.len() {
                    nd[j] = dp[j - 1] && sc[j - 1] == *c;
                }
            }
        }
        dp = nd;
    }
    dp[sc.len()]
}

impl R {
    pub fn eval(&self, row: &[V]) -> Result<V, RErr> {
        Ok(match self {
            R::Col(i) => row[*i].clone(),
            R::Lit(v) => v.clone(),
            R::And(a, b) => {
                let (x, y) = (a.eval(row), b.eval(row));
                let (x, y) = (b3(&x?)?, b3(&y?)?);
                from_b3(match (x, y) {
                    (Some(false), _) | (_, Some(false)) => Some(false),
                    (Some(true), Some(true)) => Some(true),
                    _ => None,
                })
            }
            R::Or(a, b) => {
                let (x, y) = (a.eval(row), b.eval(row));
                let (x, y) = (b3(&x?)?, b3(&y?)?);
                from_b3(match (x, y) {
                    (Some(true), _) | (_, Some(true)) => Some(true),
                    (Some(false), Some(false)) => Some(false),
                    _ => None,
                })
            }
            R::Not(a) => from_b3(b3(&a.eval(row)?)?.map(|b| !b)),
            R::Cmp(op, k, a, b) => {
                let (x, y) = (a.eval(row), b.eval(row));
                let (x, y) = (x?, y?);
                match op {
                    Operator::IsDistinctFrom | Operator::IsNotDistinctFrom => {
                        let distinct = match (x.is_null(), y.is_null()) {
                            (true, true) => false,
                            (true, false) | (false, true) => true,
                            _ => cmp_kind(*k, &x, &y)? != Ordering::Equal,
                        };
                        V::B(distinct == (*op == Operator::IsDistinctFrom))
                    }
                    _ => {
                        if x.is_null() || y.is_null() {
                            V::Null
                        } else {
                            let o = cmp_kind(*k, &x, &y)?;
                            V::B(match op {
                                Operator::Eq => o == Ordering::Equal,
                                Operator::NotEq => o != Ordering::Equal,
                                Operator::Lt => o == Ordering::Less,
                                Operator::LtEq => o != Ordering::Greater,
                                Operator::Gt => o == Ordering::Greater,
                                Operator::GtEq => o != Ordering::Less,
                                _ => return Err(RErr::Unsup),
                            })
                        }
                    }
                }
            }
            R::Arith(op, nt, a, b) => {
                let (x, y) = (a.eval(row), b.eval(row));
                let (x, y) = (x?, y?);
                if x.is_null() || y.is_null() {
                    return Ok(V::Null);
                }
                match (nt, &x, &y) {
                    (NumTy::Int { bits, signed }, V::I(l), V::I(r)) => {
                        let (lo, hi) = if *signed { (-(1i128 << (bits - 1)), (1i128 << (bits - 1)) - 1) } else { (0, (1i128 << bits) - 1) };
                        let raw = match op {
                            Operator::Plus => l + r,
                            Operator::Minus => l - r,
                            Operator::Multiply => l * r,
                            Operator::Divide => {
                                if *r == 0 {
                                    return Err(RErr::Error);
                                }
                                let q = l / r;
                                if q < lo || q > hi {
                                    return Err(RErr::Error);
                                }
                                q
                            }
                            Operator::Modulo => {
                                if *r == 0 {
                                    return Err(RErr::Error);
                                }
                                l % r
                            }
                            _ => return Err(RErr::Unsup),
                        };
                        V::I(wrap_int(raw, *bits, *signed))
                    }
                    (NumTy::F64, V::F(l), V::F(r)) => {
                        let x = match op {
                            Operator::Plus => l + r,
                            Operator::Minus => l - r,
                            Operator::Multiply => l * r,
                            Operator::Divide => l / r,
                            Operator::Modulo => l % r,
                            _ => return Err(RErr::Unsup),
                        };
                        // sign and payload of a computed NaN are unspecified while the engine's comparisons
                        // (IEEE totalOrder) distinguish them: outside the reference's fragment
                        if x.is_nan() {
                            return Err(RErr::Unsup);
                        }
                        V::F(x)
                    }
                    (NumTy::F32, V::F(l), V::F(r)) => {
                        let (l, r) = (*l as f32, *r as f32);
                        let x = match op {
                            Operator::Plus => l + r,
                            Operator::Minus => l - r,
                            Operator::Multiply => l * r,
                            Operator::Divide => l / r,
                            Operator::Modulo => l % r,
                            _ => return Err(RErr::Unsup),
                        };
                        if x.is_nan() {
                            return Err(RErr::Unsup);
                        }
                        V::F(x as f64)
                    }
                    _ => return Err(RErr::Unsup),
                }
            }
            R::Neg(nt, a) => match (nt, a.eval(row)?) {
                (_, V::Null) => V::Null,
                // array operands wrap, scalar operands raise on overflow: MIN is outside the fragment
                (NumTy::Int { bits, signed: true }, V::I(x)) => {
                    if x == -(1i128 << (bits - 1)) {
                        return Err(RErr::Unsup);
                    }
                    V::I(-x)
                }
                (NumTy::F64 | NumTy::F32, V::F(x)) => {
                    if x.is_nan() {
                        return Err(RErr::Unsup);
                    }
                    V::F(-x)
                }
                _ => return Err(RErr::Unsup),
            },
            R::Is(k, a) => {
                let v = a.eval(row)?;
                match k {
                    IsK::Null => V::B(v.is_null()),
                    IsK::NotNull => V::B(!v.is_null()),
                    _ => {
                        let b = b3(&v)?;
                        V::B(match k {
                            IsK::True => b == Some(true),
                            IsK::False => b == Some(false),
                            IsK::Unknown => b.is_none(),
                            IsK::NotTrue => b != Some(true),
                            IsK::NotFalse => b != Some(false),
                            _ => b.is_some(),
                        })
                    }
                }
            }
            R::InList { e, list, negated, kind } => {
                let x = e.eval(row);
                let items: Vec<Result<V, RErr>> = list.iter().map(|l| l.eval(row)).collect();
                let x = x?;
                let mut vals = vec![];
                for i in items {
                    vals.push(i?);
                }
                let r: Option<bool> = if vals.is_empty() {
                    Some(false)
                } else if x.is_null() {
                    None
                } else {
                    let mut any_null = false;
                    let mut found = false;
                    for v in &vals {
                        if v.is_null() {
                            any_null = true;
                        } else if cmp_member(*kind, &x, v)? == Ordering::Equal {
                            found = true;
                        }
                    }
                    if found { Some(true) } else if any_null { None } else { Some(false) }
                };
                from_b3(r.map(|b| b != *negated))
            }
            R::Case { base, whens, els } => {
                let bv = match base {
                    Some((b, _)) => Some(b.eval(row)?),
                    None => None,
                };
                for (w, t) in whens {
                    let wv = w.eval(row)?;
                    let hit = match (&bv, base) {
                        (Some(b), Some((_, k))) => !b.is_null() && !wv.is_null() && cmp_member(*k, b, &wv)? == Ordering::Equal,
                        _ => b3(&wv)? == Some(true),
                    };
                    if hit {
                        return t.eval(row);
                    }
                }
                match els {
                    Some(x) => x.eval(row)?,
                    None => V::Null,
                }
            }
            R::Cast { from, to, try_, e } => {
                let v = e.eval(row)?;
                if v.is_null() {
                    return Ok(V::Null);
                }
                match cast_value(from, to, &v) {
                    Ok(Some(x)) => x,
                    Ok(None) => {
                        if *try_ {
                            V::Null
                        } else {
                            return Err(RErr::Error);
                        }
                    }
                    Err(e) => return Err(e),
                }
            }
            R::Like { negated, ci, e, pat } => {
                let (s, p) = (e.eval(row), pat.eval(row));
                match (s?, p?) {
                    (V::Null, _) | (_, V::Null) => V::Null,
                    (V::S(s), V::S(p)) => {
                        let m = if *ci {
                            if !s.is_ascii() || !p.is_ascii() {
                                return Err(RErr::Unsup);
                            }
                            like_match(&s.to_ascii_lowercase(), &p.to_ascii_lowercase())
                        } else {
                            like_match(&s, &p)
                        };
                        // the kernels translate to a regex in which `.` does not match a line feed
                        if s.contains('\n') {
                            return Err(RErr::Unsup);
                        }
                        V::B(m != *negated)
                    }
                    _ => return Err(RErr::Unsup),
                }
            }
            R::Coalesce(args) => {
                for a in args {
                    let v = a.eval(row)?;
                    if !v.is_null() {
                        return Ok(v);
                    }
                }
                V::Null
            }
            R::NullIf(k, a, b) => {
                let (x, y) = (a.eval(row), b.eval(row));
                let (x, y) = (x?, y?);
                if !x.is_null() && !y.is_null() && cmp_member(*k, &x, &y)? == Ordering::Equal { V::Null } else { x }
            }
            R::Abs(nt, a) => match (nt, a.eval(row)?) {
                (_, V::Null) => V::Null,
                (NumTy::Int { bits, signed: true }, V::I(x)) => {
                    if x == -(1i128 << (bits - 1)) {
                        return Err(RErr::Error);
                    }
                    V::I(x.abs())
                }
                (NumTy::Int { signed: false, .. }, V::I(x)) => V::I(x),
                (NumTy::F64 | NumTy::F32, V::F(x)) => V::F(x.abs()),
                _ => return Err(RErr::Unsup),
            },
            R::Upper(a) | R::Lower(a) => match a.eval(row)? {
                V::Null => V::Null,
                V::S(s) => {
                    if !s.is_ascii() {
                        return Err(RErr::Unsup);
                    }
                    V::S(if matches!(self, R::Upper(_)) { s.to_ascii_uppercase() } else { s.to_ascii_lowercase() })
                }
                _ => return Err(RErr::Unsup),
            },
            R::Length(a) => match a.eval(row)? {
                V::Null => V::Null,
                V::S(s) => V::I(s.chars().count() as i128),
                _ => return Err(RErr::Unsup),
            },
            R::Concat(args) => {
                let mut out = String::new();
                for a in args {
                    match a.eval(row)? {
                        V::Null => {}
                        V::S(s) => out.push_str(&s),
                        _ => return Err(RErr::Unsup),
                    }
                }
                V::S(out)
            }
            R::StartsWith(a, b) => {
                let (x, y) = (a.eval(row), b.eval(row));
                match (x?, y?) {
                    (V::Null, _) | (_, V::Null) => V::Null,
                    (V::S(s), V::S(p)) => V::B(s.starts_with(&p)),
                    _ => return Err(RErr::Unsup),
                }
            }
        })
    }
}

/// Ok(Some(v)) converted; Ok(None) not representable (error for CAST, NULL for TRY_CAST).
fn cast_value(from: &DataType, to: &DataType, v: &V) -> Result<Option<V>, RErr> {
    if from == to {
        return Ok(Some(v.clone()));
    }
    let is_str = |t: &DataType| matches!(t, DataType::Utf8 | DataType::LargeUtf8 | DataType::Utf8View);
    Ok(match (v, to) {
        (V::I(i), t) if from.is_integer() && t.is_integer() => {
            let (lo, hi) = int_range(t).unwrap();
            if *i < lo || *i > hi { None } else { Some(V::I(*i)) }
        }
        (V::I(i), DataType::Float64) if from.is_integer() => Some(V::F(*i as f64)),
        (V::F(f), t) if t.is_integer() => {
            let (lo, hi) = int_range(t).unwrap();
            if f.is_nan() || f.is_infinite() {
                None
            } else {
                let tr = f.trunc();
                // compare in f64: the bounds of 64-bit types are not exactly representable, stay away
                if tr.abs() >= 9.0e18 {
                    return Err(RErr::Unsup);
                }
                let x = tr as i128;
                if x < lo || x > hi { None } else { Some(V::I(x)) }
            }
        }
        (V::I(i), DataType::Decimal128(p, s)) if from.is_integer() => match i.checked_mul(10i128.pow(*s as u32)) {
            Some(x) if x.abs() < 10i128.pow(*p as u32) => Some(V::I(x)),
            _ => None,
        },
        (V::I(i), DataType::Decimal128(p, s2)) => {
            if let DataType::Decimal128(_, s1) = from {
                match i.checked_mul(10i128.pow((*s2 - *s1) as u32)) {
                    Some(x) if x.abs() < 10i128.pow(*p as u32) => Some(V::I(x)),
                    _ => None,
                }
            } else {
                return Err(RErr::Unsup);
            }
        }
        (V::I(i), t) if from.is_integer() && is_str(t) => Some(V::S(i.to_string())),
        (V::S(s), t) if is_str(t) => Some(V::S(s.clone())),
        _ => return Err(RErr::Unsup),
    })
}

// =====================================================================================
// expression construction helpers
// =====================================================================================

pub fn udf_call(f: Arc<ScalarUDF>, args: Vec<Expr>) -> Expr {
    Expr::ScalarFunction(ScalarFunction::new_udf(f, args))
}
pub fn f_coalesce(args: Vec<Expr>) -> Expr {
    udf_call(datafusion_functions::core::coalesce(), args)
}
pub fn f_nullif(a: Expr, b: Expr) -> Expr {
    udf_call(datafusion_functions::core::nullif(), vec![a, b])
}
pub fn f_abs(a: Expr) -> Expr {
    udf_call(datafusion_functions::math::abs(), vec![a])
}
pub fn f_floor(a: Expr) -> Expr {
    udf_call(datafusion_functions::math::floor(), vec![a])
}
pub fn f_upper(a: Expr) -> Expr {
    udf_call(datafusion_functions::string::upper(), vec![a])
}
pub fn f_lower(a: Expr) -> Expr {
    udf_call(datafusion_functions::string::lower(), vec![a])
}
pub fn f_concat(args: Vec<Expr>) -> Expr {
    udf_call(datafusion_functions::string::concat(), args)
}
pub fn f_starts_with(a: Expr, b: Expr) -> Expr {
    udf_call(datafusion_functions::string::starts_with(), vec![a, b])
}
pub fn f_length(a: Expr) -> Expr {
    udf_call(datafusion_functions::unicode::character_length(), vec![a])
}
pub fn f_date_trunc(part: &str, a: Expr) -> Expr {
    udf_call(datafusion_functions::datetime::date_trunc(), vec![lit(part), a])
}
pub fn f_date_part(part: &str, a: Expr) -> Expr {
    udf_call(datafusion_functions::datetime::date_part(), vec![lit(part), a])
}
pub fn bin(l: Expr, op: Operator, r: Expr) -> Expr {
    Expr::BinaryExpr(BinaryExpr::new(Box::new(l), op, Box::new(r)))
}
pub fn e_cast(e: Expr, dt: DataType) -> Expr {
    Expr::Cast(Cast::new(Box::new(e), dt))
}
pub fn e_try_cast(e: Expr, dt: DataType) -> Expr {
    Expr::TryCast(TryCast::new(Box::new(e), dt))
}
pub fn e_in(e: Expr, list: Vec<Expr>, negated: bool) -> Expr {
    Expr::InList(InList::new(Box::new(e), list, negated))
}
pub fn e_between(e: Expr, negated: bool, lo: Expr, hi: Expr) -> Expr {
    Expr::Between(Between::new(Box::new(e), negated, Box::new(lo), Box::new(hi)))
}
pub fn e_like(e: Expr, pat: Expr, negated: bool, ci: bool) -> Expr {
    Expr::Like(Like::new(negated, Box::new(e), Box::new(pat), None, ci))
}
pub fn e_similar(e: Expr, pat: Expr, negated: bool) -> Expr {
    Expr::SimilarTo(Like::new(negated, Box::new(e), Box::new(pat), None, false))
}
pub fn e_case(base: Option<Expr>, whens: Vec<(Expr, Expr)>, els: Option<Expr>) -> Expr {
    Expr::Case(Case::new(base.map(Box::new), whens.into_iter().map(|(w, t)| (Box::new(w), Box::new(t))).collect(), els.map(Box::new)))
}
pub fn lit_v(dt: &DataType, v: &V) -> Expr {
    Expr::Literal(v_scalar(dt, v), None)
}
pub fn null_of(dt: &DataType) -> Expr {
    Expr::Literal(ScalarValue::try_from(dt).expect("typed null"), None)
}

/// name of the top-level operator of an expression (evidence histograms)
pub fn top_op(e: &Expr) -> String {
    match e {
        Expr::BinaryExpr(b) => format!("Binary({})", b.op),
        Expr::ScalarFunction(f) => format!("Fn({})", f.func.name()),
        Expr::Literal(s, _) => {
            if s.is_null() {
                "Literal(NULL)".into()
            } else {
                "Literal".into()
            }
        }
        o => o.variant_name().to_string(),
    }
}

// =====================================================================================
// typed generator
// =====================================================================================

#[derive(Clone, Copy, Debug, PartialEq, Eq)]
pub enum Tc {
    Bool,
    I8,
    I32,
    I64,
    U8,
    F64,
    Str,
    Date,
    Ts,
    Dec,
}

pub const INT_TCS: [Tc; 4] = [Tc::I8, Tc::I32, Tc::I64, Tc::U8];
pub const ALL_TCS: [Tc; 10] = [Tc::Bool, Tc::I8, Tc::I32, Tc::I64, Tc::U8, Tc::F64, Tc::Str, Tc::Date, Tc::Ts, Tc::Dec];

impl Tc {
    pub fn dt(self) -> DataType {
        match self {
            Tc::Bool => DataType::Boolean,
            Tc::I8 => DataType::Int8,
            Tc::I32 => DataType::Int32,
            Tc::I64 => DataType::Int64,
            Tc::U8 => DataType::UInt8,
            Tc::F64 => DataType::Float64,
            Tc::Str => DataType::Utf8,
            Tc::Date => DataType::Date32,
            Tc::Ts => TS,
            Tc::Dec => DEC,
        }
    }
    pub fn is_int(self) -> bool {
        matches!(self, Tc::I8 | Tc::I32 | Tc::I64 | Tc::U8)
    }
}

pub const PATTERNS: [&str; 20] = ["%", "a%", "%a", "%a%", "_", "a_", "a%b", "", "a", "A%", "\\%", "a\\%b", "%%", "a%%b", "_%", "\\_", "ab", "%b", "A", "a\\"];
pub const REGEXES: [&str; 16] = [".*", "^a$", "^a", "a$", "a", "", "^$", "^(a|ab)$", "a|b", "^a|b$", "^ab$", "a.b", "^(a)$", "[ab]", "^a%", "^A$"];

pub struct Gen<'a> {
    pub rng: &'a mut Rng,
    pub env: &'a Env,
    /// include functions whose unsimplified form cannot be evaluated by the engine (coalesce)
    pub allow_coalesce: bool,
}

impl<'a> Gen<'a> {
    pub fn new(rng: &'a mut Rng, env: &'a Env) -> Gen<'a> {
        Gen { rng, env, allow_coalesce: true }
    }

    fn cols_of(&self, tc: Tc) -> Vec<usize> {
        let dt = tc.dt();
        (0..self.env.cols.len()).filter(|&i| self.env.cols[i].dt == dt).collect()
    }

    pub fn column(&mut self, tc: Tc) -> Option<Expr> {
        let cs = self.cols_of(tc);
        if cs.is_empty() {
            return None;
        }
        let i = cs[self.rng.usize(cs.len())];
        Some(col(self.env.cols[i].name.as_str()))
    }

    pub fn literal(&mut self, tc: Tc) -> Expr {
        let dt = tc.dt();
        if self.rng.chance(1, 10) {
            return null_of(&dt);
        }
        match tc {
            Tc::Str => {
                let pool = ["", "a", "A", "ab", "b", "%", "_", "a%b", "a%", "abc"];
                lit(*self.rng.pick(&pool))
            }
            Tc::F64 => {
                let pool = [0.0, -0.0, 1.0, 1.5, -1.5, 2.5, 1e10, f64::INFINITY, f64::NEG_INFINITY, f64::NAN, 9007199254740993.0, 0.5];
                lit(*self.rng.pick(&pool))
            }
            Tc::Bool => lit(self.rng.bool()),
            _ => {
                let d = domain(&dt, false);
                let mut v = self.rng.pick(&d).clone();
                if self.rng.chance(1, 3) {
                    let (lo, hi) = int_range(&dt).unwrap();
                    v = V::I((self.rng.range(-3, 12) as i128).clamp(lo, hi));
                    if tc == Tc::Date {
                        v = V::I(D_2024 + self.rng.range(-2, 400) as i128);
                    }
                    if tc == Tc::Ts {
                        v = V::I((D_2024 + self.rng.range(-2, 400) as i128) * DAY_NS);
                    }
                }
                // sometimes type an integer literal wider than the class (cast unwrapping material)
                if tc.is_int() && tc != Tc::I64 && self.rng.chance(1, 3) {
                    if let V::I(i) = v {
                        let d = self.rng.range(-1, 1) as i128;
                        return lit((i + d) as i64);
                    }
                }
                lit_v(&dt, &v)
            }
        }
    }

    pub fn leaf(&mut self, tc: Tc) -> Expr {
        if self.rng.chance(7, 10) {
            if let Some(c) = self.column(tc) {
                return c;
            }
        }
        self.literal(tc)
    }

    pub fn any_tc(&mut self) -> Tc {
        let w = [3u32, 2, 4, 3, 2, 3, 4, 2, 2, 2];
        ALL_TCS[self.rng.weighted(&w)]
    }

    pub fn comparable_tc(&mut self) -> Tc {
        self.any_tc()
    }

    pub fn cmp_op(&mut self) -> Operator {
        *self.rng.pick(&[Operator::Eq, Operator::NotEq, Operator::Lt, Operator::LtEq, Operator::Gt, Operator::GtEq])
    }

    /// an expression of (roughly) class `tc`; coercion may widen numeric classes
    pub fn expr(&mut self, tc: Tc, depth: usize) -> Expr {
        if depth == 0 {
            return self.leaf(tc);
        }
        match tc {
            Tc::Bool => self.bool_expr(depth),
            Tc::I8 | Tc::I32 | Tc::I64 | Tc::U8 | Tc::F64 | Tc::Dec => self.num_expr(tc, depth),
            Tc::Str => self.str_expr(depth),
            Tc::Date => self.date_expr(depth),
            Tc::Ts => self.ts_expr(depth),
        }
    }

    fn generic(&mut self, tc: Tc, depth: usize) -> Option<Expr> {
        // constructs available for every class: CASE, COALESCE, NULLIF
        let d = depth - 1;
        Some(match self.rng.usize(if self.allow_coalesce { 5 } else { 3 }) {
            0 => {
                // searched CASE
                let n = 1 + self.rng.usize(3);
                let whens = (0..n).map(|_| (self.bool_expr(d.min(1)), self.expr(tc, d))).collect();
                let els = if self.rng.bool() { Some(self.expr(tc, d)) } else { None };
                e_case(None, whens, els)
            }
            1 => {
                // simple CASE with a base expression
                let bt = self.comparable_tc();
                let base = self.expr(bt, d.min(1));
                let n = 1 + self.rng.usize(4);
                let literal_table = self.rng.bool();
                let whens = (0..n)
                    .map(|_| {
                        let w = if literal_table || self.rng.chance(2, 3) { self.literal(bt) } else { self.expr(bt, 0) };
                        let t = if literal_table { self.literal(tc) } else { self.expr(tc, d) };
                        (w, t)
                    })
                    .collect();
                let els = if self.rng.bool() { Some(if literal_table { self.literal(tc) } else { self.expr(tc, d) }) } else { None };
                e_case(Some(base), whens, els)
            }
            2 => f_nullif(self.expr(tc, d), self.expr(tc, d.min(1))),
            3 => {
                let n = 1 + self.rng.usize(3);
                f_coalesce((0..n).map(|_| self.expr(tc, d)).collect())
            }
            _ => return None,
        })
    }

    pub fn bool_expr(&mut self, depth: usize) -> Expr {
        if depth == 0 {
            return match self.rng.usize(4) {
                0 | 1 => self.leaf(Tc::Bool),
                _ => {
                    let t = self.comparable_tc();
                    let op = self.cmp_op();
                    bin(self.leaf(t), op, self.leaf(t))
                }
            };
        }
        let d = depth - 1;
        match self.rng.usize(22) {
            0 | 1 => bin(self.bool_expr(d), Operator::And, self.bool_expr(d)),
            2 | 3 => bin(self.bool_expr(d), Operator::Or, self.bool_expr(d)),
            4 | 5 => Expr::Not(Box::new(self.bool_expr(d))),
            6 | 7 | 8 => {
                let t = self.comparable_tc();
                let op = self.cmp_op();
                bin(self.expr(t, d), op, self.expr(t, d.min(1)))
            }
            9 => {
                let t = self.any_tc();
                let e = self.expr(t, d);
                if self.rng.bool() { Expr::IsNull(Box::new(e)) } else { Expr::IsNotNull(Box::new(e)) }
            }
            10 => {
                let e = Box::new(self.bool_expr(d));
                match self.rng.usize(6) {
                    0 => Expr::IsTrue(e),
                    1 => Expr::IsFalse(e),
                    2 => Expr::IsUnknown(e),
                    3 => Expr::IsNotTrue(e),
                    4 => Expr::IsNotFalse(e),
                    _ => Expr::IsNotUnknown(e),
                }
            }
            11 => {
                let t = self.comparable_tc();
                let op = if self.rng.bool() { Operator::IsDistinctFrom } else { Operator::IsNotDistinctFrom };
                bin(self.expr(t, d), op, self.expr(t, d.min(1)))
            }
            12 | 13 => {
                let t = self.comparable_tc();
                let e = self.expr(t, d.min(1));
                let n = *self.rng.pick(&[1usize, 2, 3, 4, 5, 8]);
                let list = (0..n).map(|_| if self.rng.chance(5, 6) { self.literal(t) } else { self.expr(t, 0) }).collect();
                e_in(e, list, self.rng.chance(1, 3))
            }
            14 => {
                let t = self.comparable_tc();
                e_between(self.expr(t, d.min(1)), self.rng.chance(1, 3), self.expr(t, 0), self.expr(t, 0))
            }
            15 | 16 => {
                let e = self.str_expr(d.min(1));
                let p = if self.rng.chance(5, 6) { lit(*self.rng.pick(&PATTERNS)) } else { self.leaf(Tc::Str) };
                e_like(e, p, self.rng.chance(1, 3), self.rng.chance(1, 3))
            }
            17 => {
                let e = self.str_expr(d.min(1));
                match self.rng.usize(3) {
                    0 => e_similar(e, lit(*self.rng.pick(&["a", "a%", "(a|b)%", "_b", "a*", "%"])), self.rng.chance(1, 3)),
                    1 => {
                        let op = *self.rng.pick(&[Operator::RegexMatch, Operator::RegexNotMatch, Operator::RegexIMatch, Operator::RegexNotIMatch]);
                        bin(e, op, lit(*self.rng.pick(&REGEXES)))
                    }
                    _ => f_starts_with(e, if self.rng.chance(3, 4) { lit(*self.rng.pick(&["a", "", "%", "a%", "_", "ab"])) } else { self.leaf(Tc::Str) }),
                }
            }
            18 => {
                // comparison against a cast (unwrap-cast material)
                let from = *self.rng.pick(&INT_TCS);
                let to = *self.rng.pick(&[Tc::I32, Tc::I64, Tc::I8, Tc::F64, Tc::Dec, Tc::Str]);
                let inner = self.expr(from, d.min(1));
                let c = if self.rng.chance(1, 3) { e_try_cast(inner, to.dt()) } else { e_cast(inner, to.dt()) };
                let op = self.cmp_op();
                let l = self.literal(to);
                if self.rng.bool() { bin(c, op, l) } else { bin(l, op, c) }
            }
            19 => {
                // date_part / floor preimage material
                let op = self.cmp_op();
                if self.rng.bool() {
                    let arg = if self.rng.bool() { self.expr(Tc::Date, 0) } else { self.expr(Tc::Ts, 0) };
                    let y = *self.rng.pick(&[2023i32, 2024, 2025, 1970, 1969]);
                    bin(f_date_part(*self.rng.pick(&["year", "YEAR", "month"]), arg), op, lit(y))
                } else {
                    bin(f_floor(self.expr(Tc::F64, d.min(1))), op, lit(*self.rng.pick(&[0.0f64, 1.0, -1.0, 1.5, 2.0])))
                }
            }
            _ => self.generic(Tc::Bool, depth).unwrap_or_else(|| self.leaf(Tc::Bool)),
        }
    }

    pub fn num_expr(&mut self, tc: Tc, depth: usize) -> Expr {
        let d = depth - 1;
        match self.rng.usize(14) {
            0..=4 => {
                let op = *self.rng.pick(&[Operator::Plus, Operator::Minus, Operator::Multiply, Operator::Divide, Operator::Modulo]);
                let rt = if tc.is_int() && self.rng.chance(1, 4) { *self.rng.pick(&INT_TCS) } else { tc };
                bin(self.expr(tc, d), op, self.expr(rt, d.min(1)))
            }
            5 => {
                if tc == Tc::U8 {
                    self.leaf(tc)
                } else {
                    Expr::Negative(Box::new(self.expr(tc, d)))
                }
            }
            6 | 7 => {
                let from = *self.rng.pick(&[Tc::I8, Tc::I32, Tc::I64, Tc::U8, Tc::F64, Tc::Dec]);
                let inner = self.expr(from, d);
                if self.rng.chance(1, 3) { e_try_cast(inner, tc.dt()) } else { e_cast(inner, tc.dt()) }
            }
            8 => {
                if tc == Tc::U8 {
                    self.leaf(tc)
                } else {
                    f_abs(self.expr(tc, d))
                }
            }
            9 if tc == Tc::I32 => f_length(self.str_expr(d.min(1))),
            9 if tc == Tc::I64 || tc == Tc::I32 => bin(self.expr(Tc::Date, 0), Operator::Minus, self.expr(Tc::Date, 0)),
            10 if tc.is_int() => e_try_cast(self.str_expr(0), tc.dt()),
            _ => self.generic(tc, depth).unwrap_or_else(|| self.leaf(tc)),
        }
    }

    pub fn str_expr(&mut self, depth: usize) -> Expr {
        if depth == 0 {
            return self.leaf(Tc::Str);
        }
        let d = depth - 1;
        match self.rng.usize(9) {
            0 => f_upper(self.str_expr(d)),
            1 => f_lower(self.str_expr(d)),
            2 | 3 => {
                let n = 1 + self.rng.usize(3);
                f_concat((0..n).map(|_| self.str_expr(d.min(1))).collect())
            }
            4 => {
                let from = *self.rng.pick(&[Tc::I8, Tc::I32, Tc::I64, Tc::U8]);
                e_cast(self.expr(from, d.min(1)), DataType::Utf8)
            }
            5 => self.leaf(Tc::Str),
            _ => self.generic(Tc::Str, depth).unwrap_or_else(|| self.leaf(Tc::Str)),
        }
    }

    pub fn date_expr(&mut self, depth: usize) -> Expr {
        if depth == 0 {
            return self.leaf(Tc::Date);
        }
        match self.rng.usize(5) {
            0 => e_cast(self.ts_expr(depth - 1), DataType::Date32),
            1 | 2 => self.leaf(Tc::Date),
            _ => self.generic(Tc::Date, depth).unwrap_or_else(|| self.leaf(Tc::Date)),
        }
    }

    pub fn ts_expr(&mut self, depth: usize) -> Expr {
        if depth == 0 {
            return self.leaf(Tc::Ts);
        }
        match self.rng.usize(6) {
            0 | 1 => f_date_trunc(*self.rng.pick(&["day", "month", "year", "hour", "week", "quarter"]), self.ts_expr(depth - 1)),
            2 => e_cast(self.date_expr(depth - 1), TS),
            3 => self.leaf(Tc::Ts),
            _ => self.generic(Tc::Ts, depth).unwrap_or_else(|| self.leaf(Tc::Ts)),
        }
    }
}
