//! planmon — in-situ stream monitors (DESIGN §3.4).
//!
//! `MonitorExec` is a transparent one-child wrapper `ExecutionPlan`. `wrap_plan` puts one around
//! EVERY node of an already optimized physical plan (bottom-up, after `create_physical_plan`, so
//! planning is not perturbed: the wrapper hands out the inner node's own `Arc<PlanProperties>`, so
//! parents keep their cached properties). Its stream taps each batch of each partition into a
//! shared per-node record. The per-node monitors (order / equivalence / constant / partitioning,
//! statistics, schema, metrics) are plain functions over those records; the check binaries
//! C28 / C29 / C30 / C53 pick the ones they need.
//!
//! Soundness guard: `run_monitored` pairs every monitored run with an unwrapped run of the same
//! query (planned a second time, so no metric / dynamic-filter state is shared) and reports
//! `GuardMismatch` when the two results differ — such a run is inconclusive, never a violation.

use std::any::Any;
use std::cmp::Ordering;
use std::collections::{BTreeMap, HashMap, HashSet};
use std::fmt;
use std::pin::Pin;
use std::sync::atomic::{AtomicBool, AtomicUsize, Ordering as AtOrd};
use std::sync::{Arc, Mutex};
use std::task::{Context, Poll};

use arrow::array::*;
use arrow::compute::SortOptions;
use arrow::datatypes::{DataType, SchemaRef, TimeUnit};
use arrow::record_batch::RecordBatch;
use datafusion::common::tree_node::TreeNodeRecursion;
use datafusion::common::stats::Precision;
use datafusion::common::{Result, ScalarValue, Statistics};
use datafusion::error::DataFusionError;
use datafusion::execution::TaskContext;
use datafusion::physical_plan::execution_plan::replace_children_if_necessary;
use datafusion::physical_plan::metrics::MetricsSet;
use datafusion::physical_plan::{
    ChildStats, DisplayAs, DisplayFormatType, ExecutionPlan, ExecutionPlanProperties, PlanProperties, RecordBatchStream,
    ReplaceChildrenOptions, SendableRecordBatchStream, StatisticsArgs, StatisticsContext,
};
use datafusion::prelude::*;
use datafusion_physical_expr::{AcrossPartitions, Partitioning, PhysicalExpr, PhysicalSortExpr};
use futures::Stream;
use vcommon::{json, Json};

// =================================================================================================
// records
// =================================================================================================

/// One `execute(partition)` call of a monitored node and everything its stream yielded.
#[derive(Debug, Default, Clone)]
pub struct RunRec {
    pub partition: usize,
    pub batches: Vec<RecordBatch>,
    pub rows: usize,
    /// the stream returned `None` (drained to end of stream)
    pub eos: bool,
    /// the stream yielded an `Err`
    pub err: bool,
}

#[derive(Debug)]
pub struct NodeRec {
    pub id: usize,
    pub name: String,
    pub runs: Mutex<Vec<RunRec>>,
    /// `execute` itself returned an error at least once
    pub exec_err: AtomicBool,
    /// the wrapper was rebuilt while the plan was running (recursive CTE re-planning / reset_state):
    /// the executed inner instance is then not the one the harness holds
    pub rebuilt: AtomicBool,
}

/// Called when a monitored stream yields its FIRST batch: (node record, partition).
pub type Probe = Arc<dyn Fn(&NodeRec, usize) + Send + Sync>;

#[derive(Default)]
pub struct MonitorSet {
    sealed: AtomicBool,
    next_id: AtomicUsize,
    probe: Option<Probe>,
}

impl fmt::Debug for MonitorSet {
    fn fmt(&self, f: &mut fmt::Formatter<'_>) -> fmt::Result {
        write!(f, "MonitorSet(next_id={})", self.next_id.load(AtOrd::Relaxed))
    }
}

// =================================================================================================
// MonitorExec
// =================================================================================================

#[derive(Debug)]
pub struct MonitorExec {
    inner: Arc<dyn ExecutionPlan>,
    rec: Arc<NodeRec>,
    set: Arc<MonitorSet>,
}

impl MonitorExec {
    fn new(inner: Arc<dyn ExecutionPlan>, set: &Arc<MonitorSet>) -> Self {
        let id = set.next_id.fetch_add(1, AtOrd::Relaxed);
        let rec = Arc::new(NodeRec {
            id,
            name: inner.name().to_string(),
            runs: Mutex::new(vec![]),
            exec_err: AtomicBool::new(false),
            rebuilt: AtomicBool::new(false),
        });
        MonitorExec { inner, rec, set: Arc::clone(set) }
    }
    pub fn inner(&self) -> &Arc<dyn ExecutionPlan> {
        &self.inner
    }
    pub fn rec(&self) -> &Arc<NodeRec> {
        &self.rec
    }
}

/// The wrapper itself (NOT following `downcast_delegate`).
pub fn as_monitor(plan: &Arc<dyn ExecutionPlan>) -> Option<&MonitorExec> {
    (plan.as_ref() as &dyn Any).downcast_ref::<MonitorExec>()
}

impl DisplayAs for MonitorExec {
    fn fmt_as(&self, _t: DisplayFormatType, f: &mut fmt::Formatter) -> fmt::Result {
        write!(f, "MonitorExec: #{}", self.rec.id)
    }
}

#[allow(deprecated)]
impl ExecutionPlan for MonitorExec {
    fn name(&self) -> &str {
        "MonitorExec"
    }

    /// parents that inspect their children by downcast see the inner node
    fn downcast_delegate(&self) -> Option<&dyn ExecutionPlan> {
        Some(self.inner.as_ref())
    }

    fn schema(&self) -> SchemaRef {
        self.inner.schema()
    }

    /// the inner node's own `Arc<PlanProperties>`: parents can keep their cached properties
    fn properties(&self) -> &Arc<PlanProperties> {
        self.inner.properties()
    }

    fn children(&self) -> Vec<&Arc<dyn ExecutionPlan>> {
        vec![&self.inner]
    }

    fn maintains_input_order(&self) -> Vec<bool> {
        vec![true]
    }

    fn benefits_from_input_partitioning(&self) -> Vec<bool> {
        vec![false]
    }

    fn apply_expressions(&self, _f: &mut dyn FnMut(&Arc<dyn PhysicalExpr>) -> Result<TreeNodeRecursion>) -> Result<TreeNodeRecursion> {
        // the wrapper owns no expressions; the inner node is reached as a child
        Ok(TreeNodeRecursion::Continue)
    }

    fn replace_children(self: Arc<Self>, mut children: Vec<Arc<dyn ExecutionPlan>>, _options: ReplaceChildrenOptions) -> Result<Arc<dyn ExecutionPlan>> {
        if children.len() != 1 {
            return Err(DataFusionError::Internal("MonitorExec has exactly one child".into()));
        }
        if self.set.sealed.load(AtOrd::Relaxed) {
            self.rec.rebuilt.store(true, AtOrd::Relaxed);
        }
        Ok(Arc::new(MonitorExec { inner: children.swap_remove(0), rec: Arc::clone(&self.rec), set: Arc::clone(&self.set) }))
    }

    fn with_new_children(self: Arc<Self>, children: Vec<Arc<dyn ExecutionPlan>>) -> Result<Arc<dyn ExecutionPlan>> {
        self.replace_children(children, ReplaceChildrenOptions::new(datafusion::physical_plan::ChildrenPropertiesMode::Recompute))
    }

    fn execute(&self, partition: usize, context: Arc<TaskContext>) -> Result<SendableRecordBatchStream> {
        let stream = match self.inner.execute(partition, context) {
            Ok(s) => s,
            Err(e) => {
                self.rec.exec_err.store(true, AtOrd::Relaxed);
                return Err(e);
            }
        };
        let run = {
            let mut g = self.rec.runs.lock().unwrap_or_else(|e| e.into_inner());
            g.push(RunRec { partition, ..Default::default() });
            g.len() - 1
        };
        Ok(Box::pin(TapStream { inner: stream, rec: Arc::clone(&self.rec), run, done: false, partition, probe: self.set.probe.clone() }))
    }

    fn metrics(&self) -> Option<MetricsSet> {
        self.inner.metrics()
    }

    fn child_stats_requests(&self, partition: Option<usize>) -> Vec<ChildStats> {
        vec![ChildStats::At(partition)]
    }

    fn statistics_from_inputs(&self, input_stats: &[Arc<Statistics>], _args: &StatisticsArgs) -> Result<Arc<Statistics>> {
        Ok(Arc::clone(&input_stats[0]))
    }

    fn partition_statistics(&self, partition: Option<usize>) -> Result<Arc<Statistics>> {
        self.inner.partition_statistics(partition)
    }

    fn fetch(&self) -> Option<usize> {
        self.inner.fetch()
    }

    fn cardinality_effect(&self) -> datafusion::physical_plan::execution_plan::CardinalityEffect {
        datafusion::physical_plan::execution_plan::CardinalityEffect::Equal
    }
}

struct TapStream {
    inner: SendableRecordBatchStream,
    rec: Arc<NodeRec>,
    run: usize,
    done: bool,
    partition: usize,
    /// taken when the first batch arrives
    probe: Option<Probe>,
}

impl Stream for TapStream {
    type Item = Result<RecordBatch>;
    fn poll_next(mut self: Pin<&mut Self>, cx: &mut Context<'_>) -> Poll<Option<Self::Item>> {
        let r = self.inner.as_mut().poll_next(cx);
        if let Poll::Ready(item) = &r {
            if matches!(item, Some(Ok(_))) {
                if let Some(p) = self.probe.take() {
                    p(&self.rec, self.partition);
                }
            }
            if !self.done {
                let mut g = self.rec.runs.lock().unwrap_or_else(|e| e.into_inner());
                let run = self.run;
                if let Some(rr) = g.get_mut(run) {
                    match item {
                        Some(Ok(b)) => {
                            rr.rows += b.num_rows();
                            rr.batches.push(b.clone());
                        }
                        Some(Err(_)) => rr.err = true,
                        None => rr.eos = true,
                    }
                }
                drop(g);
                if item.is_none() {
                    self.done = true;
                }
            }
        }
        r
    }
    fn size_hint(&self) -> (usize, Option<usize>) {
        self.inner.size_hint()
    }
}

impl RecordBatchStream for TapStream {
    fn schema(&self) -> SchemaRef {
        self.inner.schema()
    }
}

// =================================================================================================
// wrapping
// =================================================================================================

pub struct MonNode {
    pub rec: Arc<NodeRec>,
    /// the instance that is executed (children already wrapped)
    pub inner: Arc<dyn ExecutionPlan>,
    pub depth: usize,
    pub parent: Option<String>,
    /// indices (into `Wrapped::nodes`) of the nearest monitored descendants, in child order
    pub children: Vec<usize>,
}

pub struct Wrapped {
    pub plan: Arc<dyn ExecutionPlan>,
    pub nodes: Vec<MonNode>,
    /// nodes left unwrapped because their parent rejected a foreign child
    pub unwrappable: usize,
    /// nodes of the original plan
    pub total_nodes: usize,
}

fn wrap_rec(plan: &Arc<dyn ExecutionPlan>, set: &Arc<MonitorSet>, unwrappable: &mut usize, total: &mut usize) -> Arc<dyn ExecutionPlan> {
    *total += 1;
    let olds = plan.children();
    let node: Arc<dyn ExecutionPlan> = if olds.is_empty() {
        Arc::clone(plan)
    } else {
        let wrapped: Vec<Arc<dyn ExecutionPlan>> = olds.iter().map(|c| wrap_rec(c, set, unwrappable, total)).collect();
        match replace_children_if_necessary(Arc::clone(plan), wrapped.clone()) {
            Ok(p) => p,
            Err(_) => {
                // the parent rejects foreign children: leave its direct children unwrapped (their own
                // sub-trees stay monitored); if even that fails keep the original sub-tree
                *unwrappable += wrapped.len();
                let bare: Vec<Arc<dyn ExecutionPlan>> = wrapped.iter().map(|w| as_monitor(w).map(|m| Arc::clone(m.inner())).unwrap_or_else(|| Arc::clone(w))).collect();
                replace_children_if_necessary(Arc::clone(plan), bare).unwrap_or_else(|_| Arc::clone(plan))
            }
        }
    };
    Arc::new(MonitorExec::new(node, set))
}

fn collect_nodes(plan: &Arc<dyn ExecutionPlan>, depth: usize, parent: Option<&str>, out: &mut Vec<MonNode>, siblings: &mut Vec<usize>) {
    if let Some(m) = as_monitor(plan) {
        let me = out.len();
        siblings.push(me);
        out.push(MonNode { rec: Arc::clone(&m.rec), inner: Arc::clone(&m.inner), depth, parent: parent.map(|s| s.to_string()), children: vec![] });
        let name = m.inner.name().to_string();
        let mut kids = vec![];
        for c in m.inner.children() {
            collect_nodes(c, depth + 1, Some(&name), out, &mut kids);
        }
        out[me].children = kids;
    } else {
        let name = plan.name().to_string();
        for c in plan.children() {
            collect_nodes(c, depth + 1, Some(&name), out, siblings);
        }
    }
}

/// Wrap every node of an already optimized plan.
pub fn wrap_plan(plan: &Arc<dyn ExecutionPlan>) -> Wrapped {
    wrap_plan_with(plan, None)
}

pub fn wrap_plan_with(plan: &Arc<dyn ExecutionPlan>, probe: Option<Probe>) -> Wrapped {
    let set = Arc::new(MonitorSet { probe, ..Default::default() });
    let mut unwrappable = 0;
    let mut total = 0;
    let wrapped = wrap_rec(plan, &set, &mut unwrappable, &mut total);
    set.sealed.store(true, AtOrd::Relaxed);
    let mut nodes = vec![];
    collect_nodes(&wrapped, 0, None, &mut nodes, &mut vec![]);
    Wrapped { plan: wrapped, nodes, unwrappable, total_nodes: total }
}

// =================================================================================================
// observations
// =================================================================================================

#[derive(Default, Clone)]
pub struct PartObs {
    pub executions: usize,
    pub batches: Vec<RecordBatch>,
    pub rows: usize,
    pub eos: bool,
    pub err: bool,
}

pub struct NodeObs {
    pub name: String,
    pub parts: Vec<PartObs>,
    pub runs: Vec<RunRec>,
    pub rebuilt: bool,
    /// every declared partition was executed exactly once and drained to end of stream
    pub complete: bool,
}

impl NodeObs {
    pub fn total_rows(&self) -> usize {
        self.runs.iter().map(|r| r.rows).sum()
    }
    /// partition `p` was executed exactly once and drained
    pub fn part_complete(&self, p: usize) -> bool {
        !self.rebuilt && self.parts.get(p).map(|x| x.executions == 1 && x.eos && !x.err).unwrap_or(false)
    }
}

pub fn observe(node: &MonNode) -> NodeObs {
    let nparts = node.inner.output_partitioning().partition_count();
    let runs = node.rec.runs.lock().unwrap_or_else(|e| e.into_inner()).clone();
    let mut parts = vec![PartObs::default(); nparts];
    let mut stray = false;
    for r in &runs {
        match parts.get_mut(r.partition) {
            Some(p) => {
                p.executions += 1;
                p.batches.extend(r.batches.iter().cloned());
                p.rows += r.rows;
                p.eos = r.eos;
                p.err |= r.err;
            }
            None => stray = true,
        }
    }
    let rebuilt = node.rec.rebuilt.load(AtOrd::Relaxed);
    let complete = !rebuilt && !stray && !node.rec.exec_err.load(AtOrd::Relaxed) && parts.iter().all(|p| p.executions == 1 && p.eos && !p.err);
    NodeObs { name: node.inner.name().to_string(), parts, runs, rebuilt, complete }
}

// =================================================================================================
// cells: an arrow-independent logical value of one array slot
// =================================================================================================

#[derive(Clone, Debug)]
pub enum Cell {
    Null,
    Bool(bool),
    Int(i128),
    Float(f64),
    Str(String),
    Bytes(Vec<u8>),
    /// a type the monitors do not interpret (display form only)
    Opaque(String),
}

impl Cell {
    pub fn is_null(&self) -> bool {
        matches!(self, Cell::Null)
    }
    pub fn is_opaque(&self) -> bool {
        matches!(self, Cell::Opaque(_))
    }
    pub fn to_json(&self) -> Json {
        match self {
            Cell::Null => Json::Null,
            Cell::Bool(b) => json!(b),
            Cell::Int(i) => {
                if let Ok(x) = i64::try_from(*i) {
                    json!(x)
                } else {
                    json!(i.to_string())
                }
            }
            Cell::Float(f) => {
                if f.is_finite() {
                    json!(f)
                } else {
                    json!(format!("{f}"))
                }
            }
            Cell::Str(s) => json!(s),
            Cell::Bytes(b) => json!(format!("{b:?}")),
            Cell::Opaque(s) => json!(format!("<{s}>")),
        }
    }
    /// exact (bit level) key: equal keys are certainly equal values
    pub fn key(&self) -> String {
        match self {
            Cell::Null => "N".into(),
            Cell::Bool(b) => format!("B{}", *b as u8),
            Cell::Int(i) => format!("I{i}"),
            Cell::Float(f) => format!("F{:016x}", f.to_bits()),
            Cell::Str(s) => format!("S{}:{s}", s.len()),
            Cell::Bytes(b) => format!("Y{b:?}"),
            Cell::Opaque(s) => format!("O{s}"),
        }
    }
}

/// All slots of an array as cells (dictionary / view / large variants collapse to the value type).
pub fn cells(arr: &dyn Array) -> Vec<Cell> {
    let n = arr.len();
    macro_rules! prim {
        ($t:ty, $conv:expr) => {{
            let a = arr.as_any().downcast_ref::<$t>().unwrap();
            (0..n).map(|i| if a.is_null(i) { Cell::Null } else { $conv(a.value(i)) }).collect()
        }};
    }
    match arr.data_type() {
        DataType::Null => vec![Cell::Null; n],
        DataType::Boolean => prim!(BooleanArray, Cell::Bool),
        DataType::Int8 => prim!(Int8Array, |x| Cell::Int(x as i128)),
        DataType::Int16 => prim!(Int16Array, |x| Cell::Int(x as i128)),
        DataType::Int32 => prim!(Int32Array, |x| Cell::Int(x as i128)),
        DataType::Int64 => prim!(Int64Array, |x| Cell::Int(x as i128)),
        DataType::UInt8 => prim!(UInt8Array, |x| Cell::Int(x as i128)),
        DataType::UInt16 => prim!(UInt16Array, |x| Cell::Int(x as i128)),
        DataType::UInt32 => prim!(UInt32Array, |x| Cell::Int(x as i128)),
        DataType::UInt64 => prim!(UInt64Array, |x| Cell::Int(x as i128)),
        DataType::Float16 => prim!(Float16Array, |x: half::f16| Cell::Float(x.to_f64())),
        DataType::Float32 => prim!(Float32Array, |x| Cell::Float(x as f64)),
        DataType::Float64 => prim!(Float64Array, Cell::Float),
        DataType::Decimal128(_, _) => prim!(Decimal128Array, Cell::Int),
        DataType::Utf8 => prim!(StringArray, |x: &str| Cell::Str(x.to_string())),
        DataType::LargeUtf8 => prim!(LargeStringArray, |x: &str| Cell::Str(x.to_string())),
        DataType::Utf8View => prim!(StringViewArray, |x: &str| Cell::Str(x.to_string())),
        DataType::Binary => prim!(BinaryArray, |x: &[u8]| Cell::Bytes(x.to_vec())),
        DataType::LargeBinary => prim!(LargeBinaryArray, |x: &[u8]| Cell::Bytes(x.to_vec())),
        DataType::BinaryView => prim!(BinaryViewArray, |x: &[u8]| Cell::Bytes(x.to_vec())),
        DataType::Date32 => prim!(Date32Array, |x| Cell::Int(x as i128)),
        DataType::Date64 => prim!(Date64Array, |x| Cell::Int(x as i128)),
        DataType::Time32(TimeUnit::Second) => prim!(Time32SecondArray, |x| Cell::Int(x as i128)),
        DataType::Time32(TimeUnit::Millisecond) => prim!(Time32MillisecondArray, |x| Cell::Int(x as i128)),
        DataType::Time64(TimeUnit::Microsecond) => prim!(Time64MicrosecondArray, |x| Cell::Int(x as i128)),
        DataType::Time64(TimeUnit::Nanosecond) => prim!(Time64NanosecondArray, |x| Cell::Int(x as i128)),
        DataType::Timestamp(TimeUnit::Second, _) => prim!(TimestampSecondArray, |x| Cell::Int(x as i128)),
        DataType::Timestamp(TimeUnit::Millisecond, _) => prim!(TimestampMillisecondArray, |x| Cell::Int(x as i128)),
        DataType::Timestamp(TimeUnit::Microsecond, _) => prim!(TimestampMicrosecondArray, |x| Cell::Int(x as i128)),
        DataType::Timestamp(TimeUnit::Nanosecond, _) => prim!(TimestampNanosecondArray, |x| Cell::Int(x as i128)),
        DataType::Duration(TimeUnit::Second) => prim!(DurationSecondArray, |x| Cell::Int(x as i128)),
        DataType::Duration(TimeUnit::Millisecond) => prim!(DurationMillisecondArray, |x| Cell::Int(x as i128)),
        DataType::Duration(TimeUnit::Microsecond) => prim!(DurationMicrosecondArray, |x| Cell::Int(x as i128)),
        DataType::Duration(TimeUnit::Nanosecond) => prim!(DurationNanosecondArray, |x| Cell::Int(x as i128)),
        DataType::Dictionary(_, _) => {
            let d = arr.as_any_dictionary();
            let vals = cells(d.values().as_ref());
            let keys = d.normalized_keys();
            (0..n).map(|i| if arr.is_null(i) { Cell::Null } else { vals.get(keys[i]).cloned().unwrap_or(Cell::Null) }).collect()
        }
        _ => {
            let opts = arrow::util::display::FormatOptions::default();
            match arrow::util::display::ArrayFormatter::try_new(arr, &opts) {
                Ok(f) => (0..n).map(|i| if arr.is_null(i) { Cell::Null } else { Cell::Opaque(format!("{}", f.value(i))) }).collect(),
                Err(_) => (0..n).map(|i| if arr.is_null(i) { Cell::Null } else { Cell::Opaque("?".into()) }).collect(),
            }
        }
    }
}

pub fn scalar_cell(v: &ScalarValue) -> Option<Cell> {
    let arr = v.to_array().ok()?;
    cells(arr.as_ref()).into_iter().next()
}

/// Order of two NON-NULL cells of the same kind; floats by IEEE total order (−0.0 < +0.0, NaN last),
/// which is what arrow's sort kernels use. None: kinds differ or uninterpreted.
pub fn cmp_values(a: &Cell, b: &Cell) -> Option<Ordering> {
    match (a, b) {
        (Cell::Bool(x), Cell::Bool(y)) => Some(x.cmp(y)),
        (Cell::Int(x), Cell::Int(y)) => Some(x.cmp(y)),
        (Cell::Float(x), Cell::Float(y)) => Some(x.total_cmp(y)),
        (Cell::Str(x), Cell::Str(y)) => Some(x.as_bytes().cmp(y.as_bytes())),
        (Cell::Bytes(x), Cell::Bytes(y)) => Some(x.cmp(y)),
        _ => None,
    }
}

/// Independent sort comparator honouring `SortOptions`.
pub fn cmp_sort(a: &Cell, b: &Cell, o: SortOptions) -> Option<Ordering> {
    match (a.is_null(), b.is_null()) {
        (true, true) => Some(Ordering::Equal),
        (true, false) => Some(if o.nulls_first { Ordering::Less } else { Ordering::Greater }),
        (false, true) => Some(if o.nulls_first { Ordering::Greater } else { Ordering::Less }),
        _ => cmp_values(a, b).map(|c| if o.descending { c.reverse() } else { c }),
    }
}

/// Engine value equality: both NULL, or equal (±0.0 merged, NaN = NaN). None: uninterpreted.
pub fn engine_eq(a: &Cell, b: &Cell) -> Option<bool> {
    match (a, b) {
        (Cell::Null, Cell::Null) => Some(true),
        (Cell::Null, _) | (_, Cell::Null) => Some(false),
        (Cell::Float(x), Cell::Float(y)) => Some(x == y || (x.is_nan() && y.is_nan())),
        (Cell::Int(x), Cell::Float(y)) | (Cell::Float(y), Cell::Int(x)) => Some(*x as f64 == *y),
        (Cell::Opaque(_), _) | (_, Cell::Opaque(_)) => None,
        _ => cmp_values(a, b).map(|c| c == Ordering::Equal),
    }
}

fn eval_cells(e: &Arc<dyn PhysicalExpr>, b: &RecordBatch) -> Option<Vec<Cell>> {
    let v = e.evaluate(b).ok()?;
    let arr = v.into_array(b.num_rows()).ok()?;
    Some(cells(arr.as_ref()))
}

// =================================================================================================
// findings
// =================================================================================================

#[derive(Debug, Clone)]
pub struct Finding {
    pub sig: String,
    pub detail: Json,
}

/// Counters a monitor produces besides findings: `"<what>/<NodeName>" -> n`.
#[derive(Default, Debug)]
pub struct Tally(pub BTreeMap<String, u64>);

impl Tally {
    pub fn add(&mut self, k: &str, node: &str, n: u64) {
        *self.0.entry(format!("{k}/{node}")).or_insert(0) += n;
    }
    pub fn flush(&mut self, rep: &vcommon::Report) {
        for (k, v) in std::mem::take(&mut self.0) {
            rep.count(&k, v);
        }
    }
}

/// self-test switches: corrupt the OBSERVED value before the oracle looks at it
#[derive(Default, Clone, Copy, Debug)]
pub struct Corrupt {
    pub on: bool,
}

fn node_json(node: &MonNode) -> Json {
    json!({
        "node": node.inner.name(),
        "node_id": node.rec.id,
        "parent": node.parent,
        "display": datafusion::physical_plan::displayable(node.inner.as_ref()).one_line().to_string().trim().chars().take(400).collect::<String>(),
    })
}

// =================================================================================================
// C28: order / equivalence / constant / partitioning monitor
// =================================================================================================

fn lex_cmp(a: &[Cell], b: &[Cell], opts: &[SortOptions]) -> Option<Ordering> {
    for ((x, y), o) in a.iter().zip(b.iter()).zip(opts.iter()) {
        match cmp_sort(x, y, *o)? {
            Ordering::Equal => continue,
            c => return Some(c),
        }
    }
    Some(Ordering::Equal)
}

pub fn check_properties(node: &MonNode, obs: &NodeObs, tally: &mut Tally, corrupt: Corrupt) -> Vec<Finding> {
    let mut out = vec![];
    let name = obs.name.clone();
    let props = node.inner.properties();
    let eq = node.inner.equivalence_properties();
    tally.add("nodes", &name, 1);

    // the self-test reverses the row order of what was observed / moves a row to another partition
    let runs: Vec<RunRec> = if corrupt.on {
        obs.runs
            .iter()
            .map(|r| {
                let mut r2 = r.clone();
                r2.batches = r.batches.iter().rev().map(reverse_batch).collect();
                r2
            })
            .collect()
    } else {
        obs.runs.clone()
    };

    // ---- (i) orderings, per executed stream, across batch boundaries
    for ordering in eq.oeq_class().iter() {
        let sort_exprs: Vec<PhysicalSortExpr> = ordering.iter().cloned().collect();
        let opts: Vec<SortOptions> = sort_exprs.iter().map(|s| s.options).collect();
        let mut checked_pairs = 0u64;
        let mut unsupported = false;
        'runs: for r in &runs {
            let mut prev: Option<Vec<Cell>> = None;
            for b in &r.batches {
                if b.num_rows() == 0 {
                    continue;
                }
                let mut cols = vec![];
                for s in &sort_exprs {
                    match eval_cells(&s.expr, b) {
                        Some(c) => cols.push(c),
                        None => {
                            unsupported = true;
                            break 'runs;
                        }
                    }
                }
                for i in 0..b.num_rows() {
                    let row: Vec<Cell> = cols.iter().map(|c| c[i].clone()).collect();
                    if let Some(p) = &prev {
                        match lex_cmp(p, &row, &opts) {
                            None => {
                                unsupported = true;
                                break 'runs;
                            }
                            Some(Ordering::Greater) => {
                                // position of the sort expression that decides the comparison
                                let at = (0..row.len()).find(|k| cmp_sort(&p[*k], &row[*k], opts[*k]) != Some(Ordering::Equal)).unwrap_or(0);
                                out.push(Finding {
                                    sig: format!("ordering-violated/{name}"),
                                    detail: json!({
                                        "what": "two adjacent rows of one output partition violate a declared ordering",
                                        "node": node_json(node), "ordering": ordering.to_string(), "partition": r.partition,
                                        "deciding_expr": sort_exprs[at].to_string(), "deciding_position": at,
                                        "null_placement": p[at].is_null() != row[at].is_null(),
                                        "row_before": p.iter().map(|c| c.to_json()).collect::<Vec<_>>(),
                                        "row_after": row.iter().map(|c| c.to_json()).collect::<Vec<_>>(),
                                        "all_orderings": eq.oeq_class().to_string(),
                                    }),
                                });
                                break 'runs;
                            }
                            _ => checked_pairs += 1,
                        }
                    }
                    prev = Some(row);
                }
            }
        }
        if unsupported {
            tally.add("orderings_uninterpreted", &name, 1);
        } else {
            tally.add("orderings_checked", &name, 1);
            if checked_pairs > 0 {
                tally.add("orderings_checked_nontrivial", &name, 1);
            }
        }
    }

    // ---- (ii) equivalence classes: members evaluate equal on every row
    for class in eq.eq_group().iter() {
        if class.len() < 2 {
            continue;
        }
        let members: Vec<Arc<dyn PhysicalExpr>> = class.iter().cloned().collect();
        let mut rows = 0u64;
        let mut unsupported = false;
        'runs2: for r in &runs {
            for b in &r.batches {
                if b.num_rows() == 0 {
                    continue;
                }
                let mut cols = vec![];
                for m in &members {
                    match eval_cells(m, b) {
                        Some(c) => cols.push(c),
                        None => {
                            unsupported = true;
                            break 'runs2;
                        }
                    }
                }
                if corrupt.on {
                    let flipped = match &cols[0][0] {
                        Cell::Null => Cell::Int(1),
                        _ => Cell::Null,
                    };
                    if let Some(c) = cols.get_mut(1) {
                        c[0] = flipped;
                    }
                }
                for i in 0..b.num_rows() {
                    for k in 1..cols.len() {
                        match engine_eq(&cols[0][i], &cols[k][i]) {
                            None => {
                                unsupported = true;
                                break 'runs2;
                            }
                            Some(false) => {
                                out.push(Finding {
                                    sig: format!("equivalence-violated/{name}"),
                                    detail: json!({
                                        "what": "members of a declared equivalence class differ on a row",
                                        "node": node_json(node), "partition": r.partition,
                                        "members": [members[0].to_string(), members[k].to_string()],
                                        "values": [cols[0][i].to_json(), cols[k][i].to_json()],
                                    }),
                                });
                                break 'runs2;
                            }
                            Some(true) => {}
                        }
                    }
                    rows += 1;
                }
            }
        }
        if unsupported {
            tally.add("equivalences_uninterpreted", &name, 1);
        } else {
            tally.add("equivalences_checked", &name, 1);
            if rows > 0 {
                tally.add("equivalences_checked_nontrivial", &name, 1);
            }
        }
    }

    // ---- (iii) constants
    for c in eq.constants() {
        let mut per_part: BTreeMap<usize, Vec<Cell>> = BTreeMap::new(); // distinct values seen (engine equality)
        let mut unsupported = false;
        let mut rows = 0u64;
        'runs3: for r in &runs {
            for b in &r.batches {
                if b.num_rows() == 0 {
                    continue;
                }
                let Some(mut vals) = eval_cells(&c.expr, b) else {
                    unsupported = true;
                    break 'runs3;
                };
                if corrupt.on {
                    vals[0] = match &vals[0] {
                        Cell::Null => Cell::Int(1),
                        _ => Cell::Null,
                    };
                }
                let seen = per_part.entry(r.partition).or_default();
                for v in vals {
                    rows += 1;
                    let mut known = false;
                    for s in seen.iter() {
                        match engine_eq(s, &v) {
                            None => {
                                unsupported = true;
                                break 'runs3;
                            }
                            Some(true) => {
                                known = true;
                                break;
                            }
                            Some(false) => {}
                        }
                    }
                    if !known && seen.len() < 4 {
                        seen.push(v);
                    }
                }
            }
        }
        if unsupported {
            tally.add("constants_uninterpreted", &name, 1);
            continue;
        }
        tally.add("constants_checked", &name, 1);
        if rows > 0 {
            tally.add("constants_checked_nontrivial", &name, 1);
        }
        let kind = match &c.across_partitions {
            AcrossPartitions::Heterogeneous => "heterogeneous",
            AcrossPartitions::Uniform(None) => "uniform",
            AcrossPartitions::Uniform(Some(_)) => "uniform-value",
        };
        tally.add(&format!("constants_{kind}"), &name, 1);
        let mut bad: Option<Json> = None;
        // within each partition (all declarations)
        for (p, seen) in &per_part {
            if seen.len() > 1 {
                bad = Some(json!({"partition": p, "values": seen.iter().map(|c| c.to_json()).collect::<Vec<_>>(), "scope": "within one partition"}));
                break;
            }
        }
        if bad.is_none() {
            if let AcrossPartitions::Uniform(v) = &c.across_partitions {
                let mut all: Vec<(usize, Cell)> = vec![];
                for (p, seen) in &per_part {
                    for s in seen {
                        if !all.iter().any(|(_, a)| engine_eq(a, s) == Some(true)) {
                            all.push((*p, s.clone()));
                        }
                    }
                }
                if all.len() > 1 {
                    bad = Some(json!({"scope": "across partitions (declared uniform)", "values": all.iter().map(|(p, c)| json!({"partition": p, "value": c.to_json()})).collect::<Vec<_>>()}));
                } else if let (Some(v), Some((p, seen))) = (v, all.first()) {
                    if let Some(want) = scalar_cell(v) {
                        if engine_eq(&want, seen) == Some(false) {
                            bad = Some(json!({"scope": "declared uniform value", "declared": want.to_json(), "partition": p, "value": seen.to_json()}));
                        }
                    }
                }
            }
        }
        if let Some(b) = bad {
            out.push(Finding {
                sig: format!("constant-violated/{name}"),
                detail: json!({"what": "a declared constant expression is not constant on the output", "node": node_json(node), "constant": c.to_string(), "observed": b, "eq_properties": eq.to_string()}),
            });
        }
    }

    // ---- (iv) partitioning
    match &props.partitioning {
        Partitioning::Hash(exprs, n) => {
            let mut owner: HashMap<String, (usize, Vec<Cell>)> = HashMap::new();
            let mut unsupported = false;
            let mut parts_with_rows: HashSet<usize> = HashSet::new();
            let mut first = true;
            'runs4: for r in &runs {
                for b in &r.batches {
                    if b.num_rows() == 0 {
                        continue;
                    }
                    let mut cols = vec![];
                    for e in exprs {
                        match eval_cells(e, b) {
                            Some(c) => cols.push(c),
                            None => {
                                unsupported = true;
                                break 'runs4;
                            }
                        }
                    }
                    for i in 0..b.num_rows() {
                        let row: Vec<Cell> = cols.iter().map(|c| c[i].clone()).collect();
                        if row.iter().any(|c| c.is_opaque()) {
                            unsupported = true;
                            break 'runs4;
                        }
                        let key = row.iter().map(|c| c.key()).collect::<Vec<_>>().join("|");
                        let mut part = r.partition;
                        if corrupt.on && first {
                            part = (part + 1) % (*n).max(2);
                            first = false;
                            // make sure the same key is also seen in its true partition
                            owner.insert(key.clone(), (r.partition, row.clone()));
                        }
                        parts_with_rows.insert(part);
                        match owner.get(&key) {
                            Some((p0, _)) if *p0 != part => {
                                out.push(Finding {
                                    sig: format!("hash-partitioning-violated/{name}"),
                                    detail: json!({
                                        "what": "rows with equal hash-partitioning key values appear in two output partitions",
                                        "node": node_json(node), "partitioning": props.partitioning.to_string(),
                                        "key": row.iter().map(|c| c.to_json()).collect::<Vec<_>>(), "partitions": [p0, part],
                                    }),
                                });
                                break 'runs4;
                            }
                            Some(_) => {}
                            None => {
                                owner.insert(key, (part, row));
                            }
                        }
                    }
                }
            }
            if exprs.iter().any(|e| e.downcast_ref::<datafusion_physical_expr::expressions::UnKnownColumn>().is_some()) {
                // the engine's own marker for "partitioned on something that is not an output column": nothing to evaluate
                tally.add("hash_partitionings_on_unknown_column", &name, 1);
            } else if unsupported {
                tally.add("hash_partitionings_uninterpreted", &name, 1);
                if std::env::var("PLANMON_DEBUG").is_ok() {
                    let errs: Vec<String> = runs.iter().flat_map(|r| r.batches.iter()).filter(|b| b.num_rows() > 0).take(1).flat_map(|b| exprs.iter().map(move |e| match e.evaluate(b) { Ok(v) => format!("{} -> {}", e, v.data_type()), Err(x) => format!("{} -> ERR {}", e, x) })).collect();
                    eprintln!("UNINTERPRETED hash partitioning at {}: {} | schema {:?} | {:?}", node_json(node)["display"], props.partitioning, node.inner.schema().fields().iter().map(|f| f.name().clone()).collect::<Vec<_>>(), errs);
                }
            } else {
                tally.add("hash_partitionings_checked", &name, 1);
                if parts_with_rows.len() > 1 {
                    tally.add("hash_partitionings_checked_nontrivial", &name, 1);
                }
            }
        }
        Partitioning::Range(range) => {
            let sort_exprs: Vec<PhysicalSortExpr> = range.ordering().iter().cloned().collect();
            let opts: Vec<SortOptions> = sort_exprs.iter().map(|s| s.options).collect();
            let splits: Option<Vec<Vec<Cell>>> = range.split_points().iter().map(|sp| sp.values().iter().map(scalar_cell).collect::<Option<Vec<Cell>>>()).collect();
            let mut unsupported = splits.is_none();
            if let Some(splits) = splits {
                'runs5: for r in &runs {
                    for b in &r.batches {
                        if b.num_rows() == 0 {
                            continue;
                        }
                        let mut cols = vec![];
                        for s in &sort_exprs {
                            match eval_cells(&s.expr, b) {
                                Some(c) => cols.push(c),
                                None => {
                                    unsupported = true;
                                    break 'runs5;
                                }
                            }
                        }
                        for i in 0..b.num_rows() {
                            let row: Vec<Cell> = cols.iter().map(|c| c[i].clone()).collect();
                            let p = r.partition;
                            // split[p-1] <= key < split[p]
                            let lo_ok = if p == 0 { Some(true) } else { splits.get(p - 1).and_then(|s| lex_cmp(s, &row, &opts)).map(|c| c != Ordering::Greater) };
                            let hi_ok = if p >= splits.len() { Some(true) } else { lex_cmp(&row, &splits[p], &opts).map(|c| c == Ordering::Less) };
                            match (lo_ok, hi_ok) {
                                (Some(true), Some(true)) => {}
                                (None, _) | (_, None) => {
                                    unsupported = true;
                                    break 'runs5;
                                }
                                _ => {
                                    out.push(Finding {
                                        sig: format!("range-partitioning-violated/{name}"),
                                        detail: json!({"what": "a row lies outside its partition's split interval", "node": node_json(node), "partitioning": props.partitioning.to_string(), "partition": p, "key": row.iter().map(|c| c.to_json()).collect::<Vec<_>>()}),
                                    });
                                    break 'runs5;
                                }
                            }
                        }
                    }
                }
            }
            tally.add(if unsupported { "range_partitionings_uninterpreted" } else { "range_partitionings_checked" }, &name, 1);
        }
        _ => {}
    }
    out
}

fn reverse_batch(b: &RecordBatch) -> RecordBatch {
    let n = b.num_rows();
    if n < 2 {
        return b.clone();
    }
    let idx = UInt32Array::from_iter_values((0..n as u32).rev());
    let cols: Vec<ArrayRef> = b.columns().iter().map(|c| arrow::compute::take(c.as_ref(), &idx, None).expect("take")).collect();
    RecordBatch::try_new(b.schema(), cols).unwrap_or_else(|_| b.clone())
}

// =================================================================================================
// C29: statistics monitor
// =================================================================================================

/// Statistics of the monitored node itself (the documented entry point at this version:
/// `StatisticsContext::compute`, which falls back to `partition_statistics` for nodes that only
/// implement the deprecated method).
pub fn node_statistics(node: &MonNode, partition: Option<usize>) -> Result<Arc<Statistics>> {
    StatisticsContext::new().compute(node.inner.as_ref(), &StatisticsArgs::new().with_partition(partition))
}

/// Actual aggregates of a set of batches, per column.
pub struct ColActual {
    pub nulls: usize,
    pub min: Option<Cell>,
    pub max: Option<Cell>,
    pub sum_int: Option<i128>,
    pub sum_float: Option<f64>,
    pub distinct: usize,
    pub non_null: usize,
    pub interpretable: bool,
}

pub fn actual_of(batches: &[RecordBatch], ncols: usize) -> (usize, Vec<ColActual>) {
    let rows: usize = batches.iter().map(|b| b.num_rows()).sum();
    let mut cols = vec![];
    for c in 0..ncols {
        let mut a = ColActual { nulls: 0, min: None, max: None, sum_int: None, sum_float: None, distinct: 0, non_null: 0, interpretable: true };
        let mut seen: HashSet<String> = HashSet::new();
        for b in batches {
            if c >= b.num_columns() {
                a.interpretable = false;
                continue;
            }
            for v in cells(b.column(c).as_ref()) {
                match &v {
                    Cell::Null => {
                        a.nulls += 1;
                        continue;
                    }
                    Cell::Opaque(_) => a.interpretable = false,
                    Cell::Int(i) => a.sum_int = Some(a.sum_int.unwrap_or(0) + *i),
                    Cell::Float(f) => a.sum_float = Some(a.sum_float.unwrap_or(0.0) + *f),
                    _ => {}
                }
                a.non_null += 1;
                // distinct under engine equality: merge ±0.0
                let k = match &v {
                    Cell::Float(f) if *f == 0.0 => Cell::Float(0.0).key(),
                    Cell::Float(f) if f.is_nan() => "NaN".to_string(),
                    o => o.key(),
                };
                seen.insert(k);
                if a.min.as_ref().map(|m| cmp_values(&v, m) == Some(Ordering::Less)).unwrap_or(true) {
                    a.min = Some(v.clone());
                }
                if a.max.as_ref().map(|m| cmp_values(&v, m) == Some(Ordering::Greater)).unwrap_or(true) {
                    a.max = Some(v.clone());
                }
            }
        }
        a.distinct = seen.len();
        cols.push(a);
    }
    (rows, cols)
}

fn close_f64(x: f64, y: f64) -> bool {
    if x.is_nan() || y.is_nan() {
        return x.is_nan() && y.is_nan();
    }
    x == y || (x - y).abs() <= 1e-9 * x.abs().max(y.abs()).max(1.0)
}

/// Compare every `Precision::Exact` of `stats` with the aggregates of `batches`.
/// `scope` is "plan" or "partition <i>".
#[allow(clippy::too_many_arguments)]
pub fn check_exact_stats(node: &MonNode, name: &str, stats: &Statistics, batches: &[RecordBatch], scope: &str, tally: &mut Tally, corrupt: Corrupt, out: &mut Vec<Finding>) {
    let (sigp, tp) = if scope.contains("registry") { ("stats-registry-exact", "registry_") } else { ("stats-exact", "") };
    let ncols = node.inner.schema().fields().len();
    let (mut rows, cols) = actual_of(batches, ncols);
    if corrupt.on {
        rows += 1;
    }
    let fire = |kind: &str, col: Option<usize>, declared: Json, actual: Json, out: &mut Vec<Finding>| {
        out.push(Finding {
            sig: format!("{sigp}-{kind}/{name}{}", if scope.starts_with("partition") { "@partition" } else { "" }),
            detail: json!({
                "what": format!("a statistic reported as Precision::Exact differs from the value computed from the node's fully drained output ({scope})"),
                "node": node_json(node), "scope": scope, "statistic": kind, "column": col,
                "column_name": col.and_then(|c| node.inner.schema().fields().get(c).map(|f| f.name().clone())),
                "declared_exact": declared, "actual": actual,
            }),
        });
    };
    if let Precision::Exact(n) = &stats.num_rows {
        tally.add(&format!("{tp}exact_num_rows"), name, 1);
        if *n != rows {
            fire("rowcount", None, json!(n), json!(rows), out);
        }
    }
    if stats.column_statistics.len() != ncols {
        if !stats.column_statistics.is_empty() {
            tally.add("column_statistics_length_mismatch", name, 1);
        }
        return;
    }
    for (c, (cs, act)) in stats.column_statistics.iter().zip(cols.iter()).enumerate() {
        if let Precision::Exact(n) = &cs.null_count {
            tally.add(&format!("{tp}exact_null_count"), name, 1);
            if *n != act.nulls {
                fire("nullcount", Some(c), json!(n), json!(act.nulls), out);
            }
        }
        if !act.interpretable {
            tally.add("exact_uninterpreted_column", name, 1);
            continue;
        }
        for (kind, p, actual) in [("min", &cs.min_value, &act.min), ("max", &cs.max_value, &act.max)] {
            if let Precision::Exact(v) = p {
                let Some(decl) = scalar_cell(v) else { continue };
                match (decl.is_null(), actual) {
                    (true, None) => tally.add(&format!("{tp}exact_{kind}"), name, 1),
                    (true, Some(a)) => {
                        tally.add(&format!("{tp}exact_{kind}"), name, 1);
                        fire(kind, Some(c), Json::Null, a.to_json(), out);
                    }
                    // an exact bound over an output without any value: vacuous (nothing can be derived from it
                    // without an exact positive row count)
                    (false, None) => tally.add(&format!("{tp}exact_{kind}_vacuous"), name, 1),
                    (false, Some(a)) => {
                        tally.add(&format!("{tp}exact_{kind}"), name, 1);
                        let same = match (&decl, a) {
                            (Cell::Float(x), Cell::Float(y)) => close_f64(*x, *y),
                            (Cell::Int(x), Cell::Float(y)) | (Cell::Float(y), Cell::Int(x)) => close_f64(*x as f64, *y),
                            _ => match cmp_values(&decl, a) {
                                Some(o) => o == Ordering::Equal,
                                None => {
                                    tally.add("exact_uninterpreted_column", name, 1);
                                    true
                                }
                            },
                        };
                        if !same {
                            fire(kind, Some(c), decl.to_json(), a.to_json(), out);
                        }
                    }
                }
            }
        }
        if let Precision::Exact(v) = &cs.sum_value {
            if let Some(decl) = scalar_cell(v) {
                if act.non_null == 0 {
                    tally.add(&format!("{tp}exact_sum_vacuous"), name, 1);
                } else {
                    let ok = match (&decl, act.sum_int, act.sum_float) {
                        (Cell::Int(d), Some(s), _) => Some(*d == s),
                        (Cell::Float(d), _, Some(s)) => Some(close_f64(*d, s)),
                        (Cell::Float(d), Some(s), None) => Some(close_f64(*d, s as f64)),
                        _ => None,
                    };
                    match ok {
                        Some(true) => tally.add(&format!("{tp}exact_sum"), name, 1),
                        Some(false) => {
                            tally.add(&format!("{tp}exact_sum"), name, 1);
                            fire("sum", Some(c), decl.to_json(), json!(act.sum_int.map(|s| s.to_string()).or(act.sum_float.map(|s| s.to_string()))), out);
                        }
                        None => tally.add("exact_uninterpreted_column", name, 1),
                    }
                }
            }
        }
        if let (Precision::Exact(_), 0) = (&cs.distinct_count, act.non_null) {
            // like min / max: a distinct count over an output without any value is vacuous
            tally.add(&format!("{tp}exact_distinct_vacuous"), name, 1);
        } else if let Precision::Exact(n) = &cs.distinct_count {
            tally.add(&format!("{tp}exact_distinct"), name, 1);
            // whether NULL counts as a distinct value is not documented: accept both readings
            let ok = *n == act.distinct || (act.nulls > 0 && *n == act.distinct + 1);
            if !ok {
                fire("distinct", Some(c), json!(n), json!(act.distinct), out);
            }
        }
    }
}

/// Whole-plan and per-partition exact-statistics check of one node.
pub fn check_statistics(node: &MonNode, obs: &NodeObs, twin: Option<&Arc<dyn ExecutionPlan>>, tally: &mut Tally, corrupt: Corrupt) -> Vec<Finding> {
    let mut out = vec![];
    let name = obs.name.clone();
    // statistics come from the unwrapped twin node when there is one (no wrapper in the statistics walk)
    let stats_plan: &dyn ExecutionPlan = twin.map(|t| t.as_ref()).unwrap_or(node.inner.as_ref());
    tally.add(if twin.is_some() { "stats_from_unwrapped_twin" } else { "stats_from_wrapped_node" }, &name, 1);
    let stats_of = |p: Option<usize>| StatisticsContext::new().compute(stats_plan, &StatisticsArgs::new().with_partition(p));
    if obs.rebuilt {
        tally.add("stats_skipped_rebuilt", &name, 1);
        return out;
    }
    if obs.complete {
        match stats_of(None) {
            Ok(s) => {
                tally.add("stats_nodes_plan", &name, 1);
                let all: Vec<RecordBatch> = obs.parts.iter().flat_map(|p| p.batches.iter().cloned()).collect();
                check_exact_stats(node, &name, &s, &all, "plan", tally, corrupt, &mut out);
            }
            Err(_) => tally.add("stats_error", &name, 1),
        }
        // second source: the pluggable statistics registry with its built-in providers
        // (only on the unwrapped twin: the providers identify operators by downcast, which the wrapper delegates)
        let reg = datafusion::physical_plan::operator_statistics::StatisticsRegistry::default_with_builtin_providers();
        match twin.map(|t| reg.compute_base(t.as_ref())) {
            None => {}
            Some(Ok(s)) => {
                tally.add("stats_nodes_registry", &name, 1);
                let all: Vec<RecordBatch> = obs.parts.iter().flat_map(|p| p.batches.iter().cloned()).collect();
                check_exact_stats(node, &name, &s, &all, "plan (statistics registry, built-in providers)", tally, Corrupt::default(), &mut out);
            }
            Some(Err(_)) => tally.add("stats_registry_error", &name, 1),
        }
    } else {
        tally.add("stats_skipped_not_drained", &name, 1);
    }
    for p in 0..obs.parts.len() {
        if !obs.part_complete(p) {
            continue;
        }
        match stats_of(Some(p)) {
            Ok(s) => {
                tally.add("stats_nodes_partition", &name, 1);
                check_exact_stats(node, &name, &s, &obs.parts[p].batches, &format!("partition {p}"), tally, Corrupt::default(), &mut out);
            }
            Err(_) => tally.add("stats_error", &name, 1),
        }
    }
    out
}

// =================================================================================================
// C30: schema monitor
// =================================================================================================

pub fn check_schema(node: &MonNode, obs: &NodeObs, tally: &mut Tally, corrupt: Corrupt) -> Vec<Finding> {
    let mut out = vec![];
    let name = obs.name.clone();
    let schema = node.inner.schema();
    let mut type_bad = false;
    let mut null_bad = false;
    tally.add("schema_nodes", &name, 1);
    for r in &obs.runs {
        for b in &r.batches {
            tally.add("batches", &name, 1);
            let mut types: Vec<DataType> = b.columns().iter().map(|c| c.data_type().clone()).collect();
            if corrupt.on {
                if let Some(t) = types.first_mut() {
                    *t = if *t == DataType::Int8 { DataType::Int16 } else { DataType::Int8 };
                }
            }
            if !type_bad {
                let declared: Vec<DataType> = schema.fields().iter().map(|f| f.data_type().clone()).collect();
                if types != declared {
                    type_bad = true;
                    let kind = if types.len() != declared.len() { "column-count" } else { "type" };
                    out.push(Finding {
                        sig: format!("schema-type-mismatch/{name}"),
                        detail: json!({
                            "what": format!("an emitted batch's {kind} differs from the node's declared schema"), "node": node_json(node), "partition": r.partition,
                            "declared": declared.iter().map(|t| t.to_string()).collect::<Vec<_>>(),
                            "emitted": types.iter().map(|t| t.to_string()).collect::<Vec<_>>(),
                        }),
                    });
                }
            }
            if !null_bad && b.num_columns() == schema.fields().len() {
                for (i, f) in schema.fields().iter().enumerate() {
                    if !f.is_nullable() {
                        tally.add("non_nullable_columns", &name, 1);
                        let nulls = b.column(i).logical_null_count();
                        if nulls > 0 {
                            null_bad = true;
                            out.push(Finding {
                                sig: format!("null-in-non-nullable/{name}"),
                                detail: json!({
                                    "what": "an emitted batch has NULLs in a column the node declares non-nullable", "node": node_json(node), "partition": r.partition,
                                    "column": i, "column_name": f.name(), "nulls": nulls, "rows": b.num_rows(),
                                }),
                            });
                            break;
                        }
                    }
                }
            }
        }
    }
    out
}

/// The property's logical-equivalence relation on types: an encoding of the same value type counts as
/// equal (dictionary<K,V> → V, run-end-encoded → V, Utf8 / LargeUtf8 / Utf8View, Binary variants),
/// applied recursively to list / struct / map element types; field names and nullability of nested
/// fields are not compared.
pub fn logical_type(t: &DataType) -> DataType {
    use arrow::datatypes::Field;
    let f = |f: &Arc<Field>| Arc::new(Field::new("item", logical_type(f.data_type()), true));
    match t {
        DataType::Dictionary(_, v) => logical_type(v),
        DataType::RunEndEncoded(_, v) => logical_type(v.data_type()),
        DataType::Utf8 | DataType::LargeUtf8 | DataType::Utf8View => DataType::Utf8,
        DataType::Binary | DataType::LargeBinary | DataType::BinaryView => DataType::Binary,
        DataType::List(x) | DataType::LargeList(x) | DataType::ListView(x) | DataType::LargeListView(x) => DataType::List(f(x)),
        DataType::FixedSizeList(x, n) => DataType::FixedSizeList(f(x), *n),
        DataType::Struct(fs) => DataType::Struct(fs.iter().map(|x| Arc::new(Field::new(x.name(), logical_type(x.data_type()), true))).collect()),
        DataType::Map(x, s) => DataType::Map(f(x), *s),
        o => o.clone(),
    }
}

// =================================================================================================
// C53: metrics monitor
// =================================================================================================

pub fn check_output_rows(node: &MonNode, obs: &NodeObs, tally: &mut Tally, corrupt: Corrupt) -> Vec<Finding> {
    let mut out = vec![];
    let name = obs.name.clone();
    let Some(metric) = node.inner.metrics().and_then(|m| m.output_rows()) else {
        tally.add("no_output_rows_metric", &name, 1);
        return out;
    };
    if !obs.complete {
        tally.add(if obs.rebuilt { "metric_skipped_rebuilt" } else { "metric_skipped_partially_consumed" }, &name, 1);
        return out;
    }
    let mut tapped = obs.total_rows();
    if corrupt.on {
        tapped += 1;
    }
    tally.add("output_rows_checked", &name, 1);
    if tapped > 0 {
        tally.add("output_rows_checked_nontrivial", &name, 1);
    }
    if metric != tapped {
        out.push(Finding {
            sig: format!("output-rows-metric/{name}"),
            detail: json!({
                "what": "output_rows metric differs from the rows the node emitted (all partitions drained to end of stream)",
                "node": node_json(node), "metric_output_rows": metric, "rows_emitted": tapped,
                "rows_per_partition": obs.parts.iter().map(|p| p.rows).collect::<Vec<_>>(),
            }),
        });
    }
    out
}

// =================================================================================================
// plan shape evidence: elided sorts / repartitions
// =================================================================================================

#[derive(Default, Debug, Clone)]
pub struct PlanShape {
    pub nodes: usize,
    pub sort_execs: usize,
    pub hash_repartitions: usize,
    /// ordering requirements of some operator met by a child that is not a sort (declared / propagated ordering)
    pub ordering_req_met_without_sort: usize,
    /// hash-distribution requirements (child has > 1 partition) met by a child that is not a hash repartition
    pub hash_req_met_without_repartition: usize,
}

pub fn plan_shape(plan: &Arc<dyn ExecutionPlan>) -> PlanShape {
    use datafusion::physical_plan::repartition::RepartitionExec;
    use datafusion::physical_plan::sorts::sort::SortExec;
    use datafusion_physical_expr::Distribution;
    fn rec(p: &Arc<dyn ExecutionPlan>, s: &mut PlanShape) {
        s.nodes += 1;
        if p.is::<SortExec>() {
            s.sort_execs += 1;
        }
        if let Some(r) = p.downcast_ref::<RepartitionExec>() {
            if matches!(r.partitioning(), Partitioning::Hash(_, _)) {
                s.hash_repartitions += 1;
            }
        }
        let children = p.children();
        let ord = p.required_input_ordering();
        let dist: Vec<Distribution> = p.input_distribution_requirements().per_child_distributions().cloned().collect();
        for (i, c) in children.iter().enumerate() {
            if ord.get(i).map(|o| o.is_some()).unwrap_or(false) && !c.is::<SortExec>() {
                s.ordering_req_met_without_sort += 1;
            }
            #[allow(deprecated)]
            let keyed = matches!(dist.get(i), Some(Distribution::HashPartitioned(_)) | Some(Distribution::KeyPartitioned(_)));
            if keyed && c.output_partitioning().partition_count() > 1 {
                let is_hash_rep = c.downcast_ref::<RepartitionExec>().map(|r| matches!(r.partitioning(), Partitioning::Hash(_, _))).unwrap_or(false);
                if !is_hash_rep {
                    s.hash_req_met_without_repartition += 1;
                }
            }
            rec(c, s);
        }
    }
    let mut s = PlanShape::default();
    rec(plan, &mut s);
    s
}

fn logical_sorts(plan: &datafusion::logical_expr::LogicalPlan) -> usize {
    let mut n = 0;
    let _ = plan.apply_with_subqueries(|p| {
        if matches!(p, datafusion::logical_expr::LogicalPlan::Sort(_)) {
            n += 1;
        }
        Ok(TreeNodeRecursion::Continue)
    });
    n
}

// =================================================================================================
// monitored execution with the wrapped-vs-unwrapped guard
// =================================================================================================

pub struct MonRun {
    pub wrapped: Wrapped,
    pub batches: Vec<RecordBatch>,
    /// arrow form of the LOGICAL plan's output schema (`df.schema()`)
    pub logical_schema: SchemaRef,
    pub shape: PlanShape,
    /// ORDER BY nodes of the optimized logical plan
    pub logical_sorts: usize,
    pub plan_text: String,
    /// the second planning (for the unwrapped run) displayed differently from the first
    pub replanned_differs: bool,
    /// nodes of the UNWRAPPED twin plan in pre-order, aligned with `wrapped.nodes` (None when the two
    /// plannings differ): statistics are taken from these, so that no wrapper is in the walk
    pub twin: Option<Vec<Arc<dyn ExecutionPlan>>>,
    /// output schema of the analyzed + optimized logical plan
    pub optimized_schema: Option<SchemaRef>,
}

impl MonRun {
    /// a sort that the logical plan asks for does not exist physically, or an operator's ordering
    /// requirement is met without a sort below it
    pub fn sort_elided(&self) -> bool {
        self.shape.ordering_req_met_without_sort > 0 || self.logical_sorts > self.shape.sort_execs
    }
    pub fn repartition_elided(&self) -> bool {
        self.shape.hash_req_met_without_repartition > 0
    }
}

pub enum Outcome {
    Ok(Box<MonRun>),
    /// the engine rejected the query before execution (both plannings)
    PlanError(DataFusionError),
    /// wrapped and unwrapped run both failed at execution
    ExecError(DataFusionError),
    /// wrapped and unwrapped runs disagree: harness perturbation or a nondeterministic query — inconclusive
    GuardMismatch(String),
}

pub async fn run_monitored_df(ctx: &SessionContext, df: DataFrame) -> Outcome {
    run_monitored_df_with(ctx, df, None).await
}

pub async fn run_monitored_df_with(ctx: &SessionContext, df: DataFrame, probe: Option<Probe>) -> Outcome {
    let logical_schema: SchemaRef = Arc::new(df.schema().as_arrow().clone());
    let (n_sorts, optimized_schema) = match ctx.state().optimize(df.logical_plan()) {
        Ok(p) => (logical_sorts(&p), Some(Arc::new(p.schema().as_arrow().clone()) as SchemaRef)),
        Err(_) => (0, None),
    };
    let plan1 = match df.clone().create_physical_plan().await {
        Ok(p) => p,
        Err(e) => return Outcome::PlanError(e),
    };
    let shape = plan_shape(&plan1);
    let plan_text = datafusion::physical_plan::displayable(plan1.as_ref()).indent(false).to_string();
    let wrapped = wrap_plan_with(&plan1, probe);
    let res_w = datafusion::physical_plan::collect(Arc::clone(&wrapped.plan), ctx.task_ctx()).await;
    let plan2 = match df.create_physical_plan().await {
        Ok(p) => p,
        Err(e) => return Outcome::GuardMismatch(format!("second planning failed: {e}")),
    };
    let text2 = datafusion::physical_plan::displayable(plan2.as_ref()).indent(false).to_string();
    // planning the same logical plan twice may pick a different (equivalent) plan; the guard is on results
    let replanned_differs = text2 != plan_text;
    let twin = {
        fn pre(p: &Arc<dyn ExecutionPlan>, out: &mut Vec<Arc<dyn ExecutionPlan>>) {
            out.push(Arc::clone(p));
            for c in p.children() {
                pre(c, out);
            }
        }
        let mut v = vec![];
        pre(&plan2, &mut v);
        let aligned = v.len() == wrapped.nodes.len() && v.iter().zip(wrapped.nodes.iter()).all(|(a, b)| a.name() == b.inner.name());
        if aligned { Some(v) } else { None }
    };
    let res_u = datafusion::physical_plan::collect(plan2, ctx.task_ctx()).await;
    match (res_w, res_u) {
        (Ok(w), Ok(u)) => {
            let rw = crate::engine::batches_to_rows(&w);
            let ru = crate::engine::batches_to_rows(&u);
            if !crate::canon::multiset_eq(&rw, &ru) {
                return Outcome::GuardMismatch(format!("wrapped run produced {} rows, unwrapped {} rows (or different values)", rw.len(), ru.len()));
            }
            Outcome::Ok(Box::new(MonRun { wrapped, batches: w, logical_schema, shape, logical_sorts: n_sorts, plan_text, replanned_differs, twin, optimized_schema }))
        }
        (Err(e), Err(_)) => Outcome::ExecError(e),
        (Err(e), Ok(_)) => Outcome::GuardMismatch(format!("only the wrapped run failed: {e}")),
        (Ok(_), Err(e)) => Outcome::GuardMismatch(format!("only the unwrapped run failed: {e}")),
    }
}

pub async fn run_monitored(ctx: &SessionContext, sql: &str) -> Outcome {
    run_monitored_with(ctx, sql, None).await
}

pub async fn run_monitored_with(ctx: &SessionContext, sql: &str, probe: Option<Probe>) -> Outcome {
    match ctx.sql(sql).await {
        Ok(df) => run_monitored_df_with(ctx, df, probe).await,
        Err(e) => Outcome::PlanError(e),
    }
}

// =================================================================================================
// session configurations
// =================================================================================================

#[derive(Clone, Debug)]
pub struct SessCfg {
    pub target_partitions: usize,
    pub batch_size: usize,
    pub prefer_hash_join: bool,
    pub repartition_joins: bool,
    pub repartition_aggregations: bool,
    pub repartition_windows: bool,
    pub repartition_sorts: bool,
    pub round_robin: bool,
}

impl SessCfg {
    pub fn label(&self) -> String {
        format!(
            "tp{}-bs{}-{}{}{}{}{}{}",
            self.target_partitions,
            self.batch_size,
            if self.prefer_hash_join { "hj" } else { "smj" },
            if self.repartition_joins { "" } else { "-norj" },
            if self.repartition_aggregations { "" } else { "-nora" },
            if self.repartition_windows { "" } else { "-norw" },
            if self.repartition_sorts { "" } else { "-nors" },
            if self.round_robin { "" } else { "-norr" }
        )
    }
    pub fn session_config(&self) -> SessionConfig {
        SessionConfig::new()
            .with_target_partitions(self.target_partitions)
            .with_batch_size(self.batch_size)
            .with_information_schema(false)
            .with_repartition_joins(self.repartition_joins)
            .with_repartition_aggregations(self.repartition_aggregations)
            .with_repartition_windows(self.repartition_windows)
            .with_repartition_sorts(self.repartition_sorts)
            .with_round_robin_repartition(self.round_robin)
            .set_bool("datafusion.optimizer.prefer_hash_join", self.prefer_hash_join)
    }
    pub fn ctx(&self) -> SessionContext {
        SessionContext::new_with_config(self.session_config())
    }
}

/// The fixed configuration matrix (index `i` picks one deterministically).
pub fn sess_cfg(i: u64) -> SessCfg {
    let base = SessCfg { target_partitions: 3, batch_size: 3, prefer_hash_join: true, repartition_joins: true, repartition_aggregations: true, repartition_windows: true, repartition_sorts: true, round_robin: true };
    match i % 10 {
        0 => base,
        1 => SessCfg { target_partitions: 1, batch_size: 8192, ..base },
        2 => SessCfg { target_partitions: 4, batch_size: 2, prefer_hash_join: false, ..base },
        3 => SessCfg { target_partitions: 3, batch_size: 8192, prefer_hash_join: false, ..base },
        4 => SessCfg { target_partitions: 4, batch_size: 3, repartition_joins: false, ..base },
        5 => SessCfg { target_partitions: 3, batch_size: 2, repartition_aggregations: false, repartition_windows: false, ..base },
        6 => SessCfg { target_partitions: 4, batch_size: 8192, repartition_sorts: false, round_robin: false, ..base },
        7 => SessCfg { target_partitions: 1, batch_size: 2, prefer_hash_join: false, ..base },
        8 => SessCfg { target_partitions: 4, batch_size: 3, prefer_hash_join: false, round_robin: false, ..base },
        _ => SessCfg { target_partitions: 3, batch_size: 3, prefer_hash_join: false, repartition_joins: false, repartition_sorts: false, ..base },
    }
}

// =================================================================================================
// sources WITH declared orderings
// =================================================================================================

use crate::refint::{Db, Table};
use crate::value::{Row, Value};

/// Declared sort key of a harness source: (column index, descending, nulls_first).
pub type SortKey = Vec<(usize, bool, bool)>;

fn key_cmp(a: &Row, b: &Row, key: &SortKey) -> Ordering {
    for (c, desc, nf) in key {
        let (x, y) = (&a[*c], &b[*c]);
        let o = match (x.is_null(), y.is_null()) {
            (true, true) => Ordering::Equal,
            (true, false) => {
                if *nf {
                    Ordering::Less
                } else {
                    Ordering::Greater
                }
            }
            (false, true) => {
                if *nf {
                    Ordering::Greater
                } else {
                    Ordering::Less
                }
            }
            _ => {
                let o = match (x, y) {
                    (Value::Float(p), Value::Float(q)) => p.total_cmp(q),
                    _ => crate::value::cmp_nonnull(x, y).unwrap_or(Ordering::Equal),
                };
                if *desc {
                    o.reverse()
                } else {
                    o
                }
            }
        };
        if o != Ordering::Equal {
            return o;
        }
    }
    Ordering::Equal
}

/// Pick a sort key for a generated table: `variant` 0: (id), 1: (a), 2: (a, b), 3: (a DESC NULLS FIRST), 4: (a NULLS FIRST, id DESC).
pub fn sort_key_for(t: &Table, variant: u64) -> SortKey {
    let pos = |n: &str| t.cols.iter().position(|(c, _)| c == n);
    let id = pos("id").unwrap_or(0);
    let a = pos("a").unwrap_or(0);
    let b = pos("b").unwrap_or(a);
    match variant % 5 {
        0 => vec![(id, false, false)],
        1 => vec![(a, false, false)],
        2 => vec![(a, false, false), (b, false, false)],
        3 => vec![(a, true, true)],
        _ => vec![(a, false, true), (id, true, false)],
    }
}

/// Register every table of `db` as a `MemTable::with_sort_order` over GENUINELY sorted data: the rows
/// are sorted on the key, dealt over `nparts` partitions (each stays sorted) and cut into batches.
pub fn register_db_sorted(ctx: &SessionContext, db: &Db, variant: u64, nparts: usize, max_batch: usize, rng: &mut vcommon::Rng) -> Result<Vec<String>> {
    use datafusion::datasource::MemTable;
    let mut declared = vec![];
    for t in &db.tables {
        let key = sort_key_for(t, variant);
        let mut idx: Vec<usize> = (0..t.rows.len()).collect();
        idx.sort_by(|x, y| key_cmp(&t.rows[*x], &t.rows[*y], &key));
        let nparts = nparts.max(1);
        let mut parts: Vec<Vec<usize>> = vec![vec![]; nparts];
        for i in idx {
            parts[rng.usize(nparts)].push(i);
        }
        let layout: crate::engine::Layout = parts
            .into_iter()
            .map(|rows| {
                let mut out = vec![];
                let mut i = 0;
                for c in rng.chunks(rows.len(), max_batch.max(1)) {
                    out.push(rows[i..i + c].to_vec());
                    i += c;
                }
                out
            })
            .collect();
        let order: Vec<datafusion::logical_expr::SortExpr> = key.iter().map(|(c, desc, nf)| col(t.cols[*c].0.as_str()).sort(!*desc, *nf)).collect();
        declared.push(format!("{}: {}", t.name, key.iter().map(|(c, d, nf)| format!("{}{}{}", t.cols[*c].0, if *d { " DESC" } else { "" }, if *nf { " NULLS FIRST" } else { "" })).collect::<Vec<_>>().join(", ")));
        let mt = MemTable::try_new(crate::engine::table_schema(t), crate::engine::table_partitions(t, &layout))?.with_sort_order(vec![order]);
        ctx.register_table(t.name.as_str(), Arc::new(mt))?;
    }
    Ok(declared)
}

// =================================================================================================
// fixture: MemTable / Parquet / CSV sources WITH declared orderings (and statistics)
// =================================================================================================

/// One logical table `(id BIGINT NOT NULL, a BIGINT, b BIGINT, c DOUBLE, d VARCHAR, t TIMESTAMP, e BIGINT)`
/// — `t` and `e` are strictly increasing functions of `id` — exposed under several names, each
/// physically sorted on the key it declares:
///
/// | name    | kind     | declared ordering(s)                 |
/// |---------|----------|--------------------------------------|
/// | m_id    | MemTable | (id), (t), (e)  — three equivalent   |
/// | m_a     | MemTable | (a)                                  |
/// | m_ab    | MemTable | (a, b)                               |
/// | m_ad    | MemTable | (a DESC NULLS FIRST)                 |
/// | m_c     | MemTable | (c)                                  |
/// | m_plain | MemTable | none                                 |
/// | p_a     | Parquet  | WITH ORDER (a), 3 files, disjoint ranges |
/// | p_id    | Parquet  | WITH ORDER (id), 2 files             |
/// | p_plain | Parquet  | none (statistics only), 3 files      |
/// | c_id    | CSV      | WITH ORDER (id)                      |
pub struct Fixture {
    pub dir: tempfile::TempDir,
    pub seed: u64,
    pub rows: Vec<Row>,
    pub cols: Vec<(String, crate::value::Ty)>,
}

pub const FIXTURE_TABLES: &[(&str, &str)] = &[
    ("m_id", "id"),
    ("m_a", "a"),
    ("m_ab", "a, b"),
    ("m_ad", "a DESC NULLS FIRST"),
    ("m_c", "c"),
    ("m_plain", ""),
    ("p_a", "a"),
    ("p_id", "id"),
    ("p_plain", ""),
    ("c_id", "id"),
];

fn fixture_schema() -> SchemaRef {
    use arrow::datatypes::{Field, Schema};
    Arc::new(Schema::new(vec![
        Field::new("id", DataType::Int64, false),
        Field::new("a", DataType::Int64, true),
        Field::new("b", DataType::Int64, true),
        Field::new("c", DataType::Float64, true),
        Field::new("d", DataType::Utf8, true),
        Field::new("t", DataType::Timestamp(TimeUnit::Nanosecond, None), true),
        Field::new("e", DataType::Int64, true),
    ]))
}

fn fixture_batch(rows: &[&Row]) -> RecordBatch {
    let int = |c: usize| -> ArrayRef { Arc::new(Int64Array::from_iter(rows.iter().map(|r| if let Value::Int(i) = &r[c] { Some(*i) } else { None }))) };
    let cols: Vec<ArrayRef> = vec![
        int(0),
        int(1),
        int(2),
        Arc::new(Float64Array::from_iter(rows.iter().map(|r| if let Value::Float(f) = &r[3] { Some(*f) } else { None }))),
        Arc::new(StringArray::from_iter(rows.iter().map(|r| if let Value::Str(s) = &r[4] { Some(s.clone()) } else { None }))),
        Arc::new(TimestampNanosecondArray::from_iter(rows.iter().map(|r| if let Value::Int(i) = &r[5] { Some(*i) } else { None }))),
        int(6),
    ];
    RecordBatch::try_new(fixture_schema(), cols).expect("fixture batch")
}

impl Fixture {
    pub fn new(seed: u64, nrows: usize) -> std::io::Result<Fixture> {
        use crate::value::Ty;
        let mut rng = vcommon::Rng::derive(seed, &[0xF1C5]);
        let mut rows = vec![];
        for i in 0..nrows {
            let id = i as i64 + 1;
            let a = if rng.chance(1, 10) { Value::Null } else { Value::Int(rng.range(0, 9)) };
            let b = if rng.chance(1, 8) { Value::Null } else { Value::Int(rng.range(0, 5)) };
            let c = if rng.chance(1, 10) { Value::Null } else { Value::Float(rng.range(-16, 40) as f64 / 4.0) };
            let d = if rng.chance(1, 10) { Value::Null } else { Value::Str(rng.pick(crate::qgen::STR_POOL).to_string()) };
            // 7 h steps: several ids per day, days change
            let t = Value::Int(id * 7 * 3_600_000_000_000);
            let e = Value::Int(id * 2 - 5);
            rows.push(vec![Value::Int(id), a, b, c, d, t, e]);
        }
        rng.shuffle(&mut rows);
        let cols = vec![("id", Ty::Int), ("a", Ty::Int), ("b", Ty::Int), ("c", Ty::Float), ("d", Ty::Str), ("t", Ty::Int), ("e", Ty::Int)].into_iter().map(|(n, t)| (n.to_string(), t)).collect();
        let fx = Fixture { dir: tempfile::tempdir()?, seed, rows, cols };
        fx.write_files()?;
        Ok(fx)
    }

    fn sorted(&self, key: &SortKey) -> Vec<&Row> {
        let mut v: Vec<&Row> = self.rows.iter().collect();
        v.sort_by(|x, y| key_cmp(x, y, key));
        v
    }

    fn write_parquet(&self, sub: &str, rows: &[&Row], nfiles: usize) -> std::io::Result<()> {
        let dir = self.dir.path().join(sub);
        std::fs::create_dir_all(&dir)?;
        let per = rows.len().div_ceil(nfiles.max(1)).max(1);
        for (k, chunk) in rows.chunks(per).enumerate() {
            let f = std::fs::File::create(dir.join(format!("part-{k}.parquet")))?;
            let props = parquet::file::properties::WriterProperties::builder().set_max_row_group_row_count(Some(8)).build();
            let mut w = parquet::arrow::ArrowWriter::try_new(f, fixture_schema(), Some(props)).map_err(std::io::Error::other)?;
            w.write(&fixture_batch(chunk)).map_err(std::io::Error::other)?;
            w.close().map_err(std::io::Error::other)?;
        }
        Ok(())
    }

    fn write_files(&self) -> std::io::Result<()> {
        self.write_parquet("p_a", &self.sorted(&vec![(1, false, false)]), 3)?;
        self.write_parquet("p_id", &self.sorted(&vec![(0, false, false)]), 2)?;
        let plain: Vec<&Row> = self.rows.iter().collect();
        self.write_parquet("p_plain", &plain, 3)?;
        let dir = self.dir.path().join("c_id");
        std::fs::create_dir_all(&dir)?;
        let f = std::fs::File::create(dir.join("data.csv"))?;
        let mut w = arrow::csv::WriterBuilder::new().with_header(true).build(f);
        w.write(&fixture_batch(&self.sorted(&vec![(0, false, false)]))).map_err(std::io::Error::other)?;
        Ok(())
    }

    /// Register all fixture tables; MemTables get `nparts` partitions and batches of at most `max_batch` rows.
    pub async fn register(&self, ctx: &SessionContext, nparts: usize, max_batch: usize, reg_seed: u64) -> Result<()> {
        use datafusion::datasource::MemTable;
        let mut rng = vcommon::Rng::new(reg_seed);
        let mem: Vec<(&str, SortKey, Vec<Vec<(&str, bool, bool)>>)> = vec![
            ("m_id", vec![(0, false, false)], vec![vec![("id", true, false)], vec![("t", true, false)], vec![("e", true, false)]]),
            ("m_a", vec![(1, false, false)], vec![vec![("a", true, false)]]),
            ("m_ab", vec![(1, false, false), (2, false, false)], vec![vec![("a", true, false), ("b", true, false)]]),
            ("m_ad", vec![(1, true, true)], vec![vec![("a", false, true)]]),
            ("m_c", vec![(3, false, false)], vec![vec![("c", true, false)]]),
            ("m_plain", vec![], vec![]),
        ];
        for (name, key, declared) in mem {
            let rows: Vec<&Row> = if key.is_empty() { self.rows.iter().collect() } else { self.sorted(&key) };
            let nparts = nparts.max(1);
            let mut parts: Vec<Vec<&Row>> = vec![vec![]; nparts];
            for r in rows {
                parts[rng.usize(nparts)].push(r);
            }
            let data: Vec<Vec<RecordBatch>> = parts
                .into_iter()
                .map(|rows| {
                    let mut out = vec![];
                    let mut i = 0;
                    for c in rng.chunks(rows.len(), max_batch.max(1)) {
                        out.push(fixture_batch(&rows[i..i + c]));
                        i += c;
                    }
                    out
                })
                .collect();
            let mut mt = MemTable::try_new(fixture_schema(), data)?;
            if !declared.is_empty() {
                mt = mt.with_sort_order(declared.iter().map(|o| o.iter().map(|(c, asc, nf)| col(*c).sort(*asc, *nf)).collect()).collect());
            }
            ctx.register_table(name, Arc::new(mt))?;
        }
        let cols = "id BIGINT NOT NULL, a BIGINT, b BIGINT, c DOUBLE, d VARCHAR, t TIMESTAMP, e BIGINT";
        let p = |s: &str| self.dir.path().join(s).to_string_lossy().into_owned();
        for ddl in [
            format!("CREATE EXTERNAL TABLE p_a ({cols}) STORED AS PARQUET WITH ORDER (a ASC NULLS LAST) LOCATION '{}/'", p("p_a")),
            format!("CREATE EXTERNAL TABLE p_id ({cols}) STORED AS PARQUET WITH ORDER (id ASC NULLS LAST) LOCATION '{}/'", p("p_id")),
            format!("CREATE EXTERNAL TABLE p_plain ({cols}) STORED AS PARQUET LOCATION '{}/'", p("p_plain")),
            format!("CREATE EXTERNAL TABLE c_id ({cols}) STORED AS CSV WITH ORDER (id ASC NULLS LAST) LOCATION '{}/' OPTIONS ('format.has_header' 'true')", p("c_id")),
        ] {
            ctx.sql(&ddl).await?.collect().await?;
        }
        Ok(())
    }

    pub fn to_json(&self) -> Json {
        json!({"fixture_seed": self.seed, "columns": "id, a, b, c, d, t(ns), e", "rows": crate::value::rows_to_json(&self.rows), "tables": FIXTURE_TABLES.iter().map(|(n, k)| format!("{n} sorted on ({k})")).collect::<Vec<_>>()})
    }
}

/// Seeded template queries over the fixture: declared orderings meet ORDER BY / GROUP BY / window /
/// merge-join requirements, filters make constants, projections are monotonic functions of the key.
pub fn fixture_query(rng: &mut vcommon::Rng, idx: u64) -> String {
    let keyed_a = ["m_a", "m_ab", "p_a"];
    let keyed_id = ["m_id", "p_id", "c_id"];
    let any = ["m_id", "m_a", "m_ab", "m_ad", "m_c", "m_plain", "p_a", "p_id", "p_plain", "c_id"];
    let ta = *rng.pick(&keyed_a);
    let ta2 = *rng.pick(&keyed_a);
    let ti = *rng.pick(&keyed_id);
    let ti2 = *rng.pick(&keyed_id);
    let tx = *rng.pick(&any);
    let k = rng.range(0, 9);
    let jt = *rng.pick(&["JOIN", "LEFT JOIN", "RIGHT JOIN", "FULL JOIN"]);
    let templates: Vec<String> = vec![
        format!("SELECT * FROM {ta} ORDER BY a"),
        format!("SELECT * FROM {ti} ORDER BY id"),
        format!("SELECT id, a, b FROM {ti} ORDER BY id LIMIT 5"),
        format!("SELECT id, a, b FROM {ta} ORDER BY a, id LIMIT 7"),
        format!("SELECT a + 1 AS x, b, id FROM {ta} ORDER BY x"),
        format!("SELECT -a AS x, id FROM {ta} ORDER BY x DESC NULLS LAST"),
        format!("SELECT -a AS x, id FROM m_ad ORDER BY x"),
        format!("SELECT CAST(a AS DOUBLE) AS x, id FROM {ta} ORDER BY x"),
        format!("SELECT CAST(id AS INT) AS x, a FROM {ti} ORDER BY x"),
        format!("SELECT id * 2 + 1 AS x, a FROM {ti} ORDER BY x"),
        format!("SELECT floor(c) AS f, id FROM m_c ORDER BY f"),
        format!("SELECT ceil(c) AS f, c, id FROM m_c ORDER BY f, c"),
        format!("SELECT date_trunc('day', t) AS dt, id FROM m_id ORDER BY dt"),
        format!("SELECT date_trunc('day', t) AS dt, count(*) AS n FROM m_id GROUP BY date_trunc('day', t) ORDER BY dt"),
        format!("SELECT t, e, id FROM m_id ORDER BY e"),
        format!("SELECT t, e, id FROM m_id ORDER BY t DESC"),
        format!("SELECT a, b, c, id FROM m_ab WHERE a = {k} ORDER BY b"),
        format!("SELECT a, b, id FROM {ta} WHERE a = {k}"),
        format!("SELECT a, b, id FROM {tx} WHERE a = {k} AND b = 2"),
        format!("SELECT a, b, id FROM {tx} WHERE a = b"),
        format!("SELECT a, b, id FROM {tx} WHERE a = b ORDER BY a, id"),
        format!("SELECT * FROM {ta} WHERE a > {k} ORDER BY a"),
        format!("SELECT * FROM {ti} WHERE a IS NOT NULL AND id > {k} ORDER BY id"),
        format!("SELECT a, count(*) AS n, sum(b) AS s FROM {ta} GROUP BY a"),
        format!("SELECT a, count(*) AS n, min(c) AS m FROM {ta} GROUP BY a ORDER BY a"),
        format!("SELECT a, b, count(*) AS n FROM m_ab GROUP BY a, b ORDER BY a, b"),
        format!("SELECT DISTINCT a FROM {ta} ORDER BY a"),
        format!("SELECT id, a, sum(b) OVER (PARTITION BY a ORDER BY b ROWS BETWEEN UNBOUNDED PRECEDING AND CURRENT ROW) AS s FROM m_ab"),
        format!("SELECT id, a, count(*) OVER (PARTITION BY a) AS n FROM {ta}"),
        format!("SELECT id, row_number() OVER (ORDER BY id) AS rn FROM {ti}"),
        format!("SELECT id, a, lag(b) OVER (ORDER BY id) AS p, sum(b) OVER (ORDER BY id ROWS BETWEEN 1 PRECEDING AND 1 FOLLOWING) AS s FROM {ti} ORDER BY id"),
        format!("SELECT l.id AS lid, r.id AS rid, l.a FROM {ta} l {jt} {ta2} r ON l.a = r.a"),
        format!("SELECT l.id AS lid, r.id AS rid FROM {ti} l {jt} {ti2} r ON l.id = r.id ORDER BY l.id"),
        format!("SELECT l.id AS lid, l.a AS la, r.id AS rid, r.b AS rb FROM (SELECT * FROM {ta} WHERE a = {k}) l {jt} {ti} r ON l.id = r.id ORDER BY la, rid"),
        format!("SELECT l.id AS lid, l.a AS la, r.id AS rid, r.a AS ra FROM {ti} l {jt} (SELECT * FROM {ta} WHERE a = {k}) r ON l.id = r.id ORDER BY ra, lid"),
        format!("SELECT l.a AS la, l.b AS lb, r.id AS rid, row_number() OVER (PARTITION BY r.id ORDER BY l.a, l.id) AS rn FROM (SELECT * FROM {tx} WHERE a = {k}) l {jt} {ti} r ON l.b = r.id"),
        format!("SELECT a FROM {ta} UNION ALL SELECT a FROM {ta2} ORDER BY a"),
        format!("SELECT id FROM {ti} UNION ALL SELECT id FROM {ti2} ORDER BY id"),
        format!("SELECT a, 1 AS k FROM {ta} WHERE a = {k} UNION ALL SELECT a, 1 AS k FROM {ta2} WHERE a = {k} ORDER BY a"),
        format!("SELECT a, {k} AS k FROM {ta} UNION ALL SELECT a, b AS k FROM {ta2} ORDER BY a, k"),
        format!("SELECT x.a, x.n, y.s FROM (SELECT a, count(*) AS n FROM {ta} GROUP BY a) x JOIN (SELECT a, sum(b) AS s FROM {tx} GROUP BY a) y ON x.a = y.a"),
        format!("SELECT x.a, x.n, y.s FROM (SELECT a, count(*) AS n FROM {tx} GROUP BY a) x {jt} (SELECT a, sum(b) AS s FROM {ta} GROUP BY a) y ON x.a = y.a"),
        format!("SELECT a, max(n) AS m FROM (SELECT a, b, count(*) AS n FROM {tx} GROUP BY a, b) GROUP BY a"),
        format!("SELECT a, n, sum(n) OVER (PARTITION BY a) AS s FROM (SELECT a, count(*) AS n FROM {tx} GROUP BY a)"),
        format!("SELECT a, b, n, rank() OVER (PARTITION BY a ORDER BY n, b) AS r FROM (SELECT a, b, count(*) AS n FROM {tx} GROUP BY a, b)"),
        format!("SELECT a, count(*) AS n FROM (SELECT a, b FROM {tx} GROUP BY a, b) GROUP BY a"),
        format!("SELECT l.a, l.n, r.id FROM (SELECT a, count(*) AS n FROM {tx} GROUP BY a) l JOIN {ti} r ON l.a = r.id"),
        format!("SELECT a + 1 AS x, count(*) AS n FROM {ta} GROUP BY a + 1 ORDER BY x"),
        format!("SELECT abs(a) AS x, id FROM {ta} ORDER BY x"),
        format!("SELECT a, a AS a2, a + 0 AS a3, id FROM {ta} ORDER BY a2"),
        format!("SELECT a, b FROM {ta} ORDER BY a DESC NULLS FIRST"),
        format!("SELECT a, id FROM m_ad ORDER BY a DESC NULLS FIRST"),
        format!("SELECT a, id FROM m_ad ORDER BY a"),
        format!("SELECT id, a FROM {ti} WHERE id IN (SELECT id FROM {ti2} WHERE a = {k}) ORDER BY id"),
        format!("SELECT count(*) AS n, min(a) AS lo, max(a) AS hi, min(id) AS ilo, max(id) AS ihi FROM {tx}"),
        format!("SELECT count(*) AS n, count(a) AS na, min(c) AS lo, max(c) AS hi FROM {tx} WHERE id > {k}"),
        format!("SELECT * FROM {tx} LIMIT 1000"),
        format!("SELECT id, a FROM {tx} WHERE a < {k}"),
    ];
    let n = templates.len() as u64;
    templates.into_iter().nth((idx % n) as usize).unwrap_or_default()
}

pub const N_FIXTURE_TEMPLATES: u64 = 58;

// =================================================================================================
// generic case driver shared by C28 / C29 / C30 / C53
// =================================================================================================

pub struct Prepared {
    pub ctx: SessionContext,
    pub sql: String,
    pub fp: u64,
    /// everything needed to rebuild the case without the generator
    pub witness: Json,
    pub kind: &'static str,
    /// called when a monitored stream yields its first batch
    pub probe: Option<Probe>,
}

/// How the generated tables are registered.
#[derive(Clone, Copy, Debug)]
pub enum Reg {
    /// the case's recorded random layout (as C01)
    Layout,
    /// `MemTable::with_sort_order` over sorted data, sort-key variant
    Sorted(u64),
}

pub fn prepare_generated(case: &crate::cases::Case, cfg_idx: u64, reg: Reg, reg_seed: u64) -> Result<Prepared> {
    let cfg = sess_cfg(cfg_idx);
    let ctx = cfg.ctx();
    let (regj, declared) = match reg {
        Reg::Layout => {
            crate::engine::register_db_layout(&ctx, &case.db, &case.layout)?;
            (json!({"mode": "layout", "layout": json!(case.layout)}), vec![])
        }
        Reg::Sorted(v) => {
            let mut rng = vcommon::Rng::new(reg_seed);
            let d = register_db_sorted(&ctx, &case.db, v, 1 + (reg_seed % 3) as usize, 3, &mut rng)?;
            (json!({"mode": "sorted", "variant": v, "reg_seed": reg_seed}), d)
        }
    };
    let fp = vcommon::fp_mix(case.fingerprint(), vcommon::fp_str(&format!("{}/{:?}", cfg.label(), reg)));
    Ok(Prepared {
        ctx,
        sql: case.sql.clone(),
        fp,
        witness: json!({"sql": case.sql, "tables": crate::engine::db_to_json(&case.db), "registration": regj, "declared_orderings": declared, "config_index": cfg_idx, "config": cfg.label()}),
        kind: match reg {
            Reg::Layout => "generated",
            Reg::Sorted(_) => "generated-sorted",
        },
        probe: None,
    })
}

pub async fn prepare_fixture(fx: &Fixture, sql: String, cfg_idx: u64, reg_seed: u64, settings: &[(&str, &str)]) -> Result<Prepared> {
    let cfg = sess_cfg(cfg_idx);
    let mut sc = cfg.session_config();
    for (k, v) in settings {
        sc = sc.set_str(k, v);
    }
    let ctx = SessionContext::new_with_config(sc);
    fx.register(&ctx, 1 + (reg_seed % 3) as usize, if reg_seed % 2 == 0 { 4 } else { 64 }, reg_seed).await?;
    let fp = vcommon::fp_mix(vcommon::fp_str(&sql), vcommon::fp_str(&format!("{}/{}/{}", cfg.label(), fx.seed, reg_seed)));
    let label = format!("{}{}", cfg.label(), settings.iter().map(|(k, v)| format!(" {}={v}", k.rsplit('.').next().unwrap_or(k))).collect::<String>());
    let fp = vcommon::fp_mix(fp, vcommon::fp_str(&label));
    Ok(Prepared { ctx, sql: sql.clone(), fp, witness: json!({"sql": sql, "fixture": fx.to_json(), "reg_seed": reg_seed, "config_index": cfg_idx, "config": label, "settings": settings.iter().map(|(k, v)| json!([k, v])).collect::<Vec<_>>()}), kind: "fixture", probe: None })
}

pub enum Driven {
    /// executed and analysed; number of findings
    Checked(usize),
    Skipped,
    Inconclusive,
}

/// Run one prepared case under the guard and hand the monitored run to `analyse`.
/// Violations carry the full witness (SQL, tables, registration, configuration, physical plan).
pub fn drive<F>(rep: &vcommon::Report, p: Prepared, nontrivial: impl Fn(&MonRun) -> bool, analyse: F) -> Driven
where
    F: FnOnce(&MonRun, &mut Tally) -> Vec<Finding>,
{
    let Prepared { ctx, sql, fp, witness, kind, probe } = p;
    let res = vcommon::par::guard(|| {
        let rt = crate::engine::current_thread_rt();
        rt.block_on(async {
            match tokio::time::timeout(std::time::Duration::from_secs(120), run_monitored_with(&ctx, &sql, probe)).await {
                Ok(o) => Some(o),
                Err(_) => None,
            }
        })
    });
    let outcome = match res {
        Err(panic) => {
            // a panic is outside these properties (C01/C20 own it): recorded as a crash sample, not a verdict
            rep.skip("engine-panic");
            rep.case(fp, false);
            if rep.get_count("panic_samples") < 4 {
                rep.count("panic_samples", 1);
                rep.extra(&format!("panic_sample_{}", rep.get_count("panic_samples")), json!({"sql": sql, "panic": panic, "config": witness.get("config")}));
            }
            return Driven::Skipped;
        }
        Ok(None) => {
            rep.case(fp, false);
            rep.inconclusive("a query exceeded the 120 s wall-clock guard");
            return Driven::Inconclusive;
        }
        Ok(Some(o)) => o,
    };
    match outcome {
        Outcome::PlanError(e) => {
            let cls = crate::engine::classify(&e);
            rep.skip(&format!("engine-rejects-at-planning:{cls:?}"));
            rep.case(fp, false);
            Driven::Skipped
        }
        Outcome::ExecError(e) => {
            let cls = crate::engine::classify(&e);
            rep.skip(&format!("engine-fails-at-execution:{cls:?}"));
            rep.case(fp, false);
            Driven::Skipped
        }
        Outcome::GuardMismatch(why) => {
            rep.count("guard_mismatch", 1);
            rep.case(fp, false);
            if rep.get_count("guard_mismatch") <= 3 {
                rep.extra(&format!("guard_mismatch_sample_{}", rep.get_count("guard_mismatch")), json!({"sql": sql, "why": why, "config": witness.get("config")}));
            }
            Driven::Inconclusive
        }
        Outcome::Ok(run) => {
            let nt = nontrivial(&run);
            rep.case(fp, nt);
            rep.count(&format!("executed_{kind}"), 1);
            rep.count("plan_nodes", run.wrapped.total_nodes as u64);
            rep.count("plan_nodes_monitored", run.wrapped.nodes.len() as u64);
            rep.count("plan_nodes_unwrappable", run.wrapped.unwrappable as u64);
            if run.sort_elided() {
                rep.count("plans_sort_elided", 1);
            }
            if run.replanned_differs {
                rep.count("plans_replanned_differently", 1);
                if rep.get_count("plans_replanned_differently") <= 2 {
                    rep.extra(&format!("replanned_differently_sample_{}", rep.get_count("plans_replanned_differently")), json!({"sql": sql, "config": witness.get("config"), "first_plan": run.plan_text}));
                }
            }
            if run.repartition_elided() {
                rep.count("plans_repartition_elided", 1);
            }
            for n in &run.wrapped.nodes {
                rep.seen("node_kinds", n.inner.name());
            }
            let mut tally = Tally::default();
            let findings = analyse(&run, &mut tally);
            tally.flush(rep);
            let n = findings.len();
            for f in findings {
                rep.count(&format!("violations_by_signature/{}", f.sig), 1);
                // the report keeps 25 witnesses: write out at most 3 per signature so that every signature gets one
                // (the totals per signature are in the counters)
                let nth = rep.get_count(&format!("violations_by_signature/{}", f.sig));
                if nth == 1 {
                    // a compact first witness of EVERY signature goes into the evidence itself
                    rep.extra(&format!("first_witness/{}", f.sig), json!({"sql": sql, "config": witness.get("config"), "registration": witness.get("registration").and_then(|r| r.get("mode")), "finding": f.detail, "physical_plan": run.plan_text}));
                }
                if nth > 2 {
                    continue;
                }
                let mut w = witness.clone();
                if let Some(o) = w.as_object_mut() {
                    o.insert("finding".into(), f.detail);
                    o.insert("physical_plan".into(), json!(run.plan_text));
                    o.insert("result_rows".into(), json!(run.batches.iter().map(|b| b.num_rows()).sum::<usize>()));
                }
                rep.violation(&f.sig, w);
            }
            if n == 0 && nt && rep.want_sample() && run.wrapped.nodes.len() >= 4 {
                rep.sample(json!({"sql": sql, "config": witness.get("config"), "kind": kind, "nodes_monitored": run.wrapped.nodes.iter().map(|n| n.inner.name().to_string()).collect::<Vec<_>>(), "result_rows": run.batches.iter().map(|b| b.num_rows()).sum::<usize>()}));
            }
            Driven::Checked(n)
        }
    }
}

/// Rebuild a generated-case witness written by `drive` (for `--replay`).
pub fn prepared_from_witness(w: &Json) -> Option<(Option<Fixture>, Prepared)> {
    let sql = w.get("sql")?.as_str()?.to_string();
    let cfg_idx = w.get("config_index")?.as_u64()?;
    let cfg = sess_cfg(cfg_idx);
    let mut sc = cfg.session_config();
    if let Some(sets) = w.get("settings").and_then(|s| s.as_array()) {
        for kv in sets {
            if let (Some(k), Some(v)) = (kv.get(0).and_then(|x| x.as_str()), kv.get(1).and_then(|x| x.as_str())) {
                sc = sc.set_str(k, v);
            }
        }
    }
    let ctx = SessionContext::new_with_config(sc);
    if let Some(fxj) = w.get("fixture") {
        let seed = fxj.get("fixture_seed")?.as_u64()?;
        let nrows = fxj.get("rows")?.as_array()?.len();
        let fx = Fixture::new(seed, nrows).ok()?;
        let reg_seed = w.get("reg_seed")?.as_u64()?;
        let rt = crate::engine::current_thread_rt();
        rt.block_on(fx.register(&ctx, 1 + (reg_seed % 3) as usize, if reg_seed % 2 == 0 { 4 } else { 64 }, reg_seed)).ok()?;
        return Some((Some(fx), Prepared { ctx, sql, fp: 0, witness: w.clone(), kind: "fixture", probe: None }));
    }
    let db = crate::engine::db_from_json(w.get("tables")?)?;
    let reg = w.get("registration")?;
    match reg.get("mode")?.as_str()? {
        "layout" => {
            let layout = crate::engine::layout_from_json(reg.get("layout")?)?;
            crate::engine::register_db_layout(&ctx, &db, &layout).ok()?;
        }
        _ => {
            let v = reg.get("variant")?.as_u64()?;
            let reg_seed = reg.get("reg_seed")?.as_u64()?;
            let mut rng = vcommon::Rng::new(reg_seed);
            register_db_sorted(&ctx, &db, v, 1 + (reg_seed % 3) as usize, 3, &mut rng).ok()?;
        }
    }
    Some((None, Prepared { ctx, sql, fp: 0, witness: w.clone(), kind: "replay", probe: None }))
}

// =================================================================================================
// root-cause attribution
// =================================================================================================

/// Kind of a finding = its signature up to the first '/'.
fn finding_kind(sig: &str) -> &str {
    let k = sig.split('/').next().unwrap_or(sig);
    // a wrong equivalence class and a wrong constant are the same family (a class with a literal member IS a constant)
    if k == "equivalence-violated" || k == "constant-violated" {
        "value-violated"
    } else if k.starts_with("stats-registry-exact-") {
        // statistics are derived from the child's statistics of every kind (a wrong row count makes a wrong sum)
        "stats-registry-exact"
    } else if k.starts_with("stats-exact-") {
        "stats-exact"
    } else {
        k
    }
}

/// A declared property that is wrong at node N is usually inherited unchanged by N's parents
/// (projection, repartition, sort, ...), which then show the same kind of violation. Only the
/// lowest node of such a chain is reported: a finding of kind K at a node is *propagated* when one
/// of its direct monitored children has a finding of kind K too. Propagated findings are counted
/// (`propagated_<kind>/<Node>`), not reported.
pub fn report_origins(nodes: &[MonNode], per_node: Vec<Vec<Finding>>, tally: &mut Tally) -> Vec<Finding> {
    let kinds: Vec<HashSet<String>> = per_node.iter().map(|fs| fs.iter().map(|f| finding_kind(&f.sig).to_string()).collect()).collect();
    let mut out = vec![];
    for (i, fs) in per_node.into_iter().enumerate() {
        for f in fs {
            let k = finding_kind(&f.sig).to_string();
            let in_child = |kind: &str| nodes[i].children.iter().any(|c| kinds.get(*c).map(|s| s.contains(kind)).unwrap_or(false));
            // orderings are normalised with the declared constants / equivalences: an ordering that fails at a
            // node which (or whose child) also has a wrong constant / equivalence is a consequence of that one
            let consequence = k == "ordering-violated" && (kinds[i].contains("value-violated") || in_child("value-violated"));
            if in_child(&k) {
                tally.add(&format!("propagated_{k}"), nodes[i].inner.name(), 1);
            } else if consequence {
                tally.add("consequence_of_wrong_constant_ordering-violated", nodes[i].inner.name(), 1);
            } else {
                out.push(f);
            }
        }
    }
    out
}

/// The predicate a file scan carries (`FileSource::filter`), if any.
pub fn scan_predicate(node: &MonNode) -> Option<String> {
    use datafusion::datasource::physical_plan::FileScanConfig;
    use datafusion::datasource::source::DataSourceExec;
    let ds = node.inner.downcast_ref::<DataSourceExec>()?;
    let cfg = ds.data_source().downcast_ref::<FileScanConfig>()?;
    cfg.file_source().filter().map(|f| f.to_string())
}

// =================================================================================================
// spilling sessions (C53): private spill directory that the harness can inspect
// =================================================================================================

pub struct SpillEnv {
    pub ctx: SessionContext,
    pub dir: tempfile::TempDir,
    pub label: String,
}

/// A session whose memory pool is a `FairSpillPool` of `mem_bytes` and whose spill files go below a
/// private temporary directory.
pub fn spill_ctx(mem_bytes: usize, target_partitions: usize, batch_size: usize, fan_in: Option<usize>, settings: &[(&str, &str)]) -> Result<SpillEnv> {
    use datafusion::execution::disk_manager::{DiskManagerBuilder, DiskManagerMode};
    use datafusion::execution::memory_pool::FairSpillPool;
    use datafusion::execution::runtime_env::RuntimeEnvBuilder;
    let dir = tempfile::Builder::new().prefix("planmon-spill-").tempdir().map_err(|e| DataFusionError::External(Box::new(e)))?;
    let mut dmb = DiskManagerBuilder::default().with_mode(DiskManagerMode::Directories(vec![dir.path().to_path_buf()]));
    if let Some(f) = fan_in {
        dmb = dmb.with_max_spill_merge_fan_in(f);
    }
    let rt = RuntimeEnvBuilder::new().with_memory_pool(Arc::new(FairSpillPool::new(mem_bytes))).with_disk_manager_builder(dmb).build_arc()?;
    let mut sc = SessionConfig::new().with_target_partitions(target_partitions).with_batch_size(batch_size).with_information_schema(false).set_str("datafusion.execution.sort_spill_reservation_bytes", "0");
    for (k, v) in settings {
        sc = sc.set_str(k, v);
    }
    let label = format!("mem{mem_bytes}-tp{target_partitions}-bs{batch_size}-fan{fan_in:?}{}", settings.iter().map(|(k, v)| format!(" {}={v}", k.rsplit('.').next().unwrap_or(k))).collect::<String>());
    Ok(SpillEnv { ctx: SessionContext::new_with_config_rt(sc, rt), dir, label })
}

/// What is in a spill directory right now: (files, rows in the files that parse as Arrow IPC streams, bytes, unreadable files).
#[derive(Debug, Clone, Default)]
pub struct SpillSnapshot {
    pub files: usize,
    pub rows: usize,
    pub bytes: u64,
    pub unreadable: usize,
}

pub fn spill_snapshot(dir: &std::path::Path) -> SpillSnapshot {
    fn walk(d: &std::path::Path, out: &mut Vec<std::path::PathBuf>) {
        if let Ok(rd) = std::fs::read_dir(d) {
            for e in rd.flatten() {
                let p = e.path();
                if p.is_dir() {
                    walk(&p, out);
                } else {
                    out.push(p);
                }
            }
        }
    }
    let mut files = vec![];
    walk(dir, &mut files);
    let mut s = SpillSnapshot { files: files.len(), ..Default::default() };
    for f in files {
        s.bytes += std::fs::metadata(&f).map(|m| m.len()).unwrap_or(0);
        let ok = (|| -> Option<usize> {
            let file = std::fs::File::open(&f).ok()?;
            let rd = arrow::ipc::reader::StreamReader::try_new(std::io::BufReader::new(file), None).ok()?;
            let mut rows = 0;
            for b in rd {
                rows += b.ok()?.num_rows();
            }
            Some(rows)
        })();
        match ok {
            Some(r) => s.rows += r,
            None => s.unreadable += 1,
        }
    }
    s
}
