//! Shared machinery for the differential / metamorphic family (C02, C03, C35–C38): run the same
//! generated case under a variant (configuration, rule set, serialized-and-back plan, …) and compare
//! with the engine's own baseline answer.

use crate::cases::Case;
use crate::engine::*;
use crate::qgen::GenCfg;
use crate::refint::Db;
use crate::value::Row;
use arrow::datatypes::SchemaRef;
use datafusion::error::DataFusionError;
use datafusion::logical_expr::LogicalPlan;
use datafusion::physical_plan::{collect, displayable, ExecutionPlan};
use datafusion::prelude::*;
use std::sync::Arc;
use vcommon::{Args, Report, Rng};

pub type DfResult<T> = Result<T, DataFusionError>;

pub fn base_config() -> SessionConfig {
    SessionConfig::new().with_target_partitions(3).with_batch_size(3).with_information_schema(false)
}

/// A context with the case's tables registered as MemTables in the recorded layout.
pub fn ctx_mem(case: &Case, cfg: SessionConfig) -> DfResult<SessionContext> {
    let ctx = SessionContext::new_with_config(cfg);
    register_db_layout(&ctx, &case.db, &case.layout)?;
    Ok(ctx)
}

/// Write every table as Parquet files (one per layout partition) under `dir/<table>/` and register
/// it as a listing table — needed where plans must be serializable (MemTable scans are not).
pub async fn register_db_parquet(ctx: &SessionContext, db: &Db, layout: &DbLayout, dir: &std::path::Path) -> DfResult<()> {
    for (t, l) in db.tables.iter().zip(layout.iter()) {
        let tdir = dir.join(&t.name);
        std::fs::create_dir_all(&tdir).map_err(DataFusionError::IoError)?;
        let schema = table_schema(t);
        let parts = table_partitions(t, l);
        let mut wrote = 0;
        for (k, batches) in parts.iter().enumerate() {
            let path = tdir.join(format!("part-{k}.parquet"));
            let f = std::fs::File::create(&path).map_err(DataFusionError::IoError)?;
            let mut w = parquet::arrow::ArrowWriter::try_new(f, schema.clone(), None).map_err(|e| DataFusionError::External(Box::new(e)))?;
            for b in batches {
                w.write(b).map_err(|e| DataFusionError::External(Box::new(e)))?;
            }
            w.close().map_err(|e| DataFusionError::External(Box::new(e)))?;
            wrote += 1;
        }
        if wrote == 0 {
            let path = tdir.join("part-0.parquet");
            let f = std::fs::File::create(&path).map_err(DataFusionError::IoError)?;
            let w = parquet::arrow::ArrowWriter::try_new(f, schema.clone(), None).map_err(|e| DataFusionError::External(Box::new(e)))?;
            w.close().map_err(|e| DataFusionError::External(Box::new(e)))?;
        }
        let opts = ParquetReadOptions::default().schema(schema.as_ref());
        ctx.register_parquet(t.name.as_str(), tdir.to_string_lossy().as_ref(), opts).await?;
    }
    Ok(())
}

pub struct Exec {
    pub rows: Vec<Row>,
    pub schema: SchemaRef,
    pub plan_text: String,
}

pub async fn exec_physical(ctx: &SessionContext, plan: Arc<dyn ExecutionPlan>) -> DfResult<Exec> {
    let plan_text = displayable(plan.as_ref()).indent(false).to_string();
    let schema = plan.schema();
    let batches = collect(plan, ctx.task_ctx()).await?;
    Ok(Exec { rows: batches_to_rows(&batches), schema, plan_text })
}

pub async fn exec_logical(ctx: &SessionContext, plan: LogicalPlan) -> DfResult<Exec> {
    let df = ctx.execute_logical_plan(plan).await?;
    let phys = df.create_physical_plan().await?;
    exec_physical(ctx, phys).await
}

pub async fn exec_sql(ctx: &SessionContext, sql: &str) -> DfResult<Exec> {
    let df = ctx.sql(sql).await?;
    let phys = df.create_physical_plan().await?;
    exec_physical(ctx, phys).await
}

/// Run an async block on a fresh current-thread runtime, converting panics to Err(message).
pub fn block<T>(f: impl std::future::Future<Output = T>) -> Result<T, String> {
    vcommon::par::guard(|| current_thread_rt().block_on(f))
}

/// Await `f`, converting a panic inside it into Err(message @ location): separates a panic of the
/// original plan (a skip for the round-trip checks) from a panic of the variant under test.
pub async fn guarded<T>(f: impl std::future::Future<Output = T>) -> Result<T, String> {
    use futures::FutureExt;
    match std::panic::AssertUnwindSafe(f).catch_unwind().await {
        Ok(v) => Ok(v),
        Err(_) => Err(vcommon::par::take_last_panic().unwrap_or_else(|| "<panic>".into())),
    }
}

/// Operator names occurring in a physical plan text (for evidence histograms).
pub fn operators_in(plan_text: &str) -> Vec<String> {
    plan_text.lines().filter_map(|l| l.trim_start().split(|c: char| c == ':' || c == ' ').next().map(|s| s.to_string())).filter(|s| s.ends_with("Exec")).collect()
}

/// Drive `f` over the seed-independent systematic cases and the seeded random tail.
pub fn for_each_case(args: &Args, rep: &Report, salt: u64, n_sys: u64, n_rand: u64, cfg: &GenCfg, f: impl Fn(&Case, &mut Rng, bool) + Sync) {
    vcommon::par::run(args.workers, 0..n_sys, |i| {
        let mut rng = Rng::derive(salt, &[0, i]);
        let mut c = cfg.clone();
        c.max_depth = 1 + (i % 3) as usize;
        let case = Case::generate(&mut rng, &c);
        f(&case, &mut rng, true);
    });
    vcommon::par::run(args.workers, 0..n_rand, |i| {
        if rep.violation_count() > 40 {
            return;
        }
        let mut rng = Rng::derive(args.seed, &[salt, 1, i]);
        let mut c = cfg.clone();
        c.max_depth = 1 + (i % 4) as usize;
        let case = Case::generate(&mut rng, &c);
        f(&case, &mut rng, false);
    });
}

pub fn skip_class(e: &DataFusionError) -> String {
    format!("{:?}", classify(e))
}

/// Logical type equivalence used by the schema comparisons (dictionary / view / large variants collapse).
pub fn logical_type(dt: &arrow::datatypes::DataType) -> String {
    use arrow::datatypes::DataType as D;
    match dt {
        D::Dictionary(_, v) => logical_type(v),
        D::Utf8 | D::LargeUtf8 | D::Utf8View => "String".into(),
        D::Binary | D::LargeBinary | D::BinaryView => "Binary".into(),
        D::List(f) | D::LargeList(f) | D::ListView(f) | D::LargeListView(f) => format!("List<{}>", logical_type(f.data_type())),
        other => format!("{other}"),
    }
}

/// Generator fragment selected by `--opt fragment=simple|full` plus per-construct switches
/// (`--opt subqueries=0/1`, `windows`, `setops`, `ctes`, `series`, `grouping_sets`, `semi_anti`).
pub fn gen_cfg_from(args: &Args, default_fragment: &str) -> GenCfg {
    let frag = args.opt_str("fragment").unwrap_or(default_fragment);
    let mut c = GenCfg::default();
    if frag == "simple" {
        c.subqueries = false;
        c.windows = false;
        c.setops = false;
        c.ctes = false;
        c.series = false;
        c.grouping_sets = false;
        c.semi_anti_joins = false;
    }
    let sw = |name: &str, cur: bool| args.opt_str(name).map(|v| v == "1").unwrap_or(cur);
    c.subqueries = sw("subqueries", c.subqueries);
    c.windows = sw("windows", c.windows);
    c.setops = sw("setops", c.setops);
    c.ctes = sw("ctes", c.ctes);
    c.series = sw("series", c.series);
    c.grouping_sets = sw("grouping_sets", c.grouping_sets);
    c.semi_anti_joins = sw("semi_anti", c.semi_anti_joins);
    c
}
