//! DataFusion side: table registration, SQL execution, result canonicalisation.

use crate::refint::{Db, Table};
use crate::value::*;
use arrow::array::*;
use arrow::datatypes::{DataType, Field, Schema, SchemaRef, TimeUnit};
use arrow::record_batch::RecordBatch;
use datafusion::datasource::MemTable;
use datafusion::error::DataFusionError;
use datafusion::prelude::*;
use std::sync::Arc;
use vcommon::Rng;

pub fn arrow_type(ty: Ty) -> DataType {
    match ty {
        Ty::Int => DataType::Int64,
        Ty::Float => DataType::Float64,
        Ty::Str => DataType::Utf8,
        Ty::Bool => DataType::Boolean,
    }
}

pub fn table_schema(t: &Table) -> SchemaRef {
    Arc::new(Schema::new(t.cols.iter().map(|(n, ty)| Field::new(n, arrow_type(*ty), n != "id")).collect::<Vec<_>>()))
}

pub fn column_array(rows: &[&Row], c: usize, ty: Ty) -> ArrayRef {
    match ty {
        Ty::Int => Arc::new(Int64Array::from_iter(rows.iter().map(|r| if let Value::Int(i) = &r[c] { Some(*i) } else { None }))),
        Ty::Float => Arc::new(Float64Array::from_iter(rows.iter().map(|r| r[c].as_f64().filter(|_| !r[c].is_null())))),
        Ty::Str => Arc::new(StringArray::from_iter(rows.iter().map(|r| if let Value::Str(s) = &r[c] { Some(s.clone()) } else { None }))),
        Ty::Bool => Arc::new(BooleanArray::from_iter(rows.iter().map(|r| r[c].as_bool()))),
    }
}

pub fn rows_to_batch(schema: &SchemaRef, cols: &[(String, Ty)], rows: &[&Row]) -> RecordBatch {
    let arrays: Vec<ArrayRef> = cols.iter().enumerate().map(|(c, (_, ty))| column_array(rows, c, *ty)).collect();
    RecordBatch::try_new(schema.clone(), arrays).expect("harness batch")
}

/// Physical layout of one table: partitions → batches → row indices into `Table::rows`.
pub type Layout = Vec<Vec<Vec<usize>>>;

/// Random layout: rows spread over `nparts` partitions, each cut into batches of random sizes.
pub fn random_layout(t: &Table, nparts: usize, max_batch: usize, rng: &mut Rng) -> Layout {
    let nparts = nparts.max(1);
    let mut parts: Vec<Vec<usize>> = vec![vec![]; nparts];
    for i in 0..t.rows.len() {
        // contiguous-ish assignment with some randomness
        let p = if rng.chance(1, 4) { rng.usize(nparts) } else { i * nparts / t.rows.len().max(1) };
        parts[p.min(nparts - 1)].push(i);
    }
    parts
        .into_iter()
        .map(|rows| {
            let mut out = vec![];
            let mut i = 0;
            for c in rng.chunks(rows.len(), max_batch.max(1)) {
                out.push(rows[i..i + c].to_vec());
                i += c;
            }
            if out.is_empty() && rng.bool() {
                out.push(vec![]); // an explicit empty batch
            }
            out
        })
        .collect()
}

pub fn table_partitions(t: &Table, layout: &Layout) -> Vec<Vec<RecordBatch>> {
    let schema = table_schema(t);
    layout
        .iter()
        .map(|p| {
            p.iter()
                .map(|b| {
                    let rows: Vec<&Row> = b.iter().map(|i| &t.rows[*i]).collect();
                    rows_to_batch(&schema, &t.cols, &rows)
                })
                .collect()
        })
        .collect()
}

pub type DbLayout = Vec<Layout>;

pub fn random_db_layout(db: &Db, nparts: usize, max_batch: usize, rng: &mut Rng) -> DbLayout {
    db.tables.iter().map(|t| random_layout(t, nparts, max_batch, rng)).collect()
}

pub fn register_db_layout(ctx: &SessionContext, db: &Db, layout: &DbLayout) -> Result<(), DataFusionError> {
    for (t, l) in db.tables.iter().zip(layout.iter()) {
        let mt = MemTable::try_new(table_schema(t), table_partitions(t, l))?;
        ctx.register_table(t.name.as_str(), Arc::new(mt))?;
    }
    Ok(())
}

pub fn register_db(ctx: &SessionContext, db: &Db, nparts: usize, max_batch: usize, rng: &mut Rng) -> Result<(), DataFusionError> {
    let layout = random_db_layout(db, nparts, max_batch, rng);
    register_db_layout(ctx, db, &layout)
}

pub fn default_ctx(target_partitions: usize, batch_size: usize) -> SessionContext {
    let cfg = SessionConfig::new().with_target_partitions(target_partitions).with_batch_size(batch_size).with_information_schema(false);
    SessionContext::new_with_config(cfg)
}

// ------------------------------------------------------------------------------------------

/// Logical value of one array cell (dictionary / view / large variants collapse to the value type).
pub fn cell(arr: &dyn Array, i: usize) -> Value {
    if arr.is_null(i) {
        return Value::Null;
    }
    macro_rules! prim {
        ($t:ty, $conv:expr) => {{
            let a = arr.as_any().downcast_ref::<$t>().unwrap();
            $conv(a.value(i))
        }};
    }
    match arr.data_type() {
        DataType::Null => Value::Null,
        DataType::Boolean => prim!(BooleanArray, Value::Bool),
        DataType::Int8 => prim!(Int8Array, |x| Value::Int(x as i64)),
        DataType::Int16 => prim!(Int16Array, |x| Value::Int(x as i64)),
        DataType::Int32 => prim!(Int32Array, |x| Value::Int(x as i64)),
        DataType::Int64 => prim!(Int64Array, Value::Int),
        DataType::UInt8 => prim!(UInt8Array, |x| Value::Int(x as i64)),
        DataType::UInt16 => prim!(UInt16Array, |x| Value::Int(x as i64)),
        DataType::UInt32 => prim!(UInt32Array, |x| Value::Int(x as i64)),
        DataType::UInt64 => prim!(UInt64Array, |x: u64| if x <= i64::MAX as u64 { Value::Int(x as i64) } else { Value::Float(x as f64) }),
        DataType::Float16 => prim!(Float16Array, |x: half::f16| Value::Float(x.to_f64())),
        DataType::Float32 => prim!(Float32Array, |x| Value::Float(x as f64)),
        DataType::Float64 => prim!(Float64Array, Value::Float),
        DataType::Utf8 => prim!(StringArray, |x: &str| Value::Str(x.to_string())),
        DataType::LargeUtf8 => prim!(LargeStringArray, |x: &str| Value::Str(x.to_string())),
        DataType::Utf8View => prim!(StringViewArray, |x: &str| Value::Str(x.to_string())),
        DataType::Date32 => prim!(Date32Array, |x| Value::Int(x as i64)),
        DataType::Date64 => prim!(Date64Array, Value::Int),
        DataType::Timestamp(TimeUnit::Second, _) => prim!(TimestampSecondArray, Value::Int),
        DataType::Timestamp(TimeUnit::Millisecond, _) => prim!(TimestampMillisecondArray, Value::Int),
        DataType::Timestamp(TimeUnit::Microsecond, _) => prim!(TimestampMicrosecondArray, Value::Int),
        DataType::Timestamp(TimeUnit::Nanosecond, _) => prim!(TimestampNanosecondArray, Value::Int),
        DataType::Dictionary(_, _) => {
            let d = arr.as_any_dictionary();
            let k = d.normalized_keys()[i];
            cell(d.values().as_ref(), k)
        }
        _ => {
            // anything else: its display form (still deterministic and logical)
            let opts = arrow::util::display::FormatOptions::default();
            match arrow::util::display::ArrayFormatter::try_new(arr, &opts) {
                Ok(f) => Value::Str(format!("{}", f.value(i))),
                Err(_) => Value::Str("<unprintable>".into()),
            }
        }
    }
}

pub fn batches_to_rows(batches: &[RecordBatch]) -> Vec<Row> {
    let mut out = vec![];
    for b in batches {
        for i in 0..b.num_rows() {
            out.push((0..b.num_columns()).map(|c| cell(b.column(c).as_ref(), i)).collect());
        }
    }
    out
}

#[derive(Clone, Debug, PartialEq)]
pub enum ErrClass {
    NotImplemented,
    Plan,
    /// an optimizer rule failed on a plan that was accepted by the SQL planner
    OptimizerFailure,
    DivZero,
    ScalarCard,
    ResourcesExhausted,
    Other,
}

pub fn classify(e: &DataFusionError) -> ErrClass {
    let root = e.find_root();
    let msg = e.to_string();
    if msg.contains("Optimizer rule '") && msg.contains("failed") {
        // the engine's explicit "two output expressions share a name" rejection can also surface
        // from inside a rule; it is the same documented plan-time limitation
        if msg.contains("Projections require unique expression names") {
            return ErrClass::Plan;
        }
        return ErrClass::OptimizerFailure;
    }
    match root {
        DataFusionError::NotImplemented(_) => ErrClass::NotImplemented,
        DataFusionError::Plan(_) | DataFusionError::SchemaError(_, _) | DataFusionError::SQL(_, _) => ErrClass::Plan,
        DataFusionError::ResourcesExhausted(_) => ErrClass::ResourcesExhausted,
        DataFusionError::ArrowError(a, _) if matches!(**a, arrow::error::ArrowError::DivideByZero) => ErrClass::DivZero,
        _ => {
            if msg.contains("Divide by zero") || msg.contains("divide by zero") {
                ErrClass::DivZero
            } else if msg.contains("more than one row") || msg.contains("returned more than one") {
                ErrClass::ScalarCard
            } else if msg.contains("This feature is not implemented") {
                ErrClass::NotImplemented
            } else {
                ErrClass::Other
            }
        }
    }
}

pub struct EngineOut {
    pub rows: Vec<Row>,
    pub schema: SchemaRef,
    pub batches: Vec<RecordBatch>,
}

pub async fn run_sql(ctx: &SessionContext, sql: &str) -> Result<EngineOut, DataFusionError> {
    let df = ctx.sql(sql).await?;
    let schema: SchemaRef = Arc::new(df.schema().as_arrow().clone());
    let batches = df.collect().await?;
    Ok(EngineOut { rows: batches_to_rows(&batches), schema, batches })
}

pub fn current_thread_rt() -> tokio::runtime::Runtime {
    tokio::runtime::Builder::new_current_thread().enable_all().build().expect("runtime")
}

pub fn db_to_json(db: &Db) -> vcommon::Json {
    vcommon::json!(db
        .tables
        .iter()
        .map(|t| vcommon::json!({"name": t.name, "cols": t.cols.iter().map(|(n, ty)| format!("{n}:{ty:?}")).collect::<Vec<_>>(), "rows": rows_to_json(&t.rows)}))
        .collect::<Vec<_>>())
}

pub fn db_from_json(j: &vcommon::Json) -> Option<Db> {
    let mut tables = vec![];
    for t in j.as_array()? {
        let name = t.get("name")?.as_str()?.to_string();
        let mut cols = vec![];
        for c in t.get("cols")?.as_array()? {
            let (n, ty) = c.as_str()?.split_once(':')?;
            let ty = match ty {
                "Int" => Ty::Int,
                "Float" => Ty::Float,
                "Str" => Ty::Str,
                "Bool" => Ty::Bool,
                _ => return None,
            };
            cols.push((n.to_string(), ty));
        }
        let mut rows = vec![];
        for r in t.get("rows")?.as_array()? {
            rows.push(r.as_array()?.iter().zip(cols.iter()).map(|(v, (_, ty))| Value::from_json(v, *ty)).collect());
        }
        tables.push(Table { name, cols, rows });
    }
    Some(Db { tables })
}

pub fn layout_from_json(j: &vcommon::Json) -> Option<DbLayout> {
    serde_json::from_value(j.clone()).ok()
}
