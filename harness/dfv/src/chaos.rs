//! `ChaosSourceExec` — a leaf `ExecutionPlan` that serves pre-generated partitions of batches
//! while a seeded script decides, at every `poll_next`, whether the stream
//!
//! * emits its next batch (or end-of-stream once the batches are used up),
//! * yields (`wake_by_ref` + `Pending`), or
//! * sleeps `d` time units (`tokio::time::sleep`; virtual under a paused clock).
//!
//! The decisions of partition `p` only depend on `(script.seed, p)` and on the number of polls
//! that partition has seen, so an execution on a `current_thread` runtime with a paused clock
//! (VTQ, see DESIGN §3.5) is reproducible from the seed. A stream never stalls more than
//! `max_stall` consecutive polls, so it always makes progress.
//!
//! Every stream holds a liveness token: `probe.live` is the number of streams that were
//! opened and not yet dropped (checks read it after tearing an execution down).
//!
//! Typical use:
//! ```ignore
//! let probe = ChaosProbe::new();
//! let src = ChaosSourceExec::new(schema, partitions, ChaosScript::virtual_ms(seed), probe.clone())
//!     .with_ordering(ordering);            // optional: declare a sort order the data really has
//! let plan = RepartitionExec::try_new(Arc::new(src), Partitioning::RoundRobinBatch(4))?;
//! ```

use arrow::datatypes::SchemaRef;
use arrow::record_batch::RecordBatch;
use datafusion::common::tree_node::TreeNodeRecursion;
use datafusion::error::Result;
use datafusion::execution::{RecordBatchStream, SendableRecordBatchStream, TaskContext};
use datafusion::physical_expr::{EquivalenceProperties, LexOrdering, Partitioning, PhysicalExpr};
use datafusion::physical_plan::execution_plan::{Boundedness, EmissionType};
use datafusion::physical_plan::{DisplayAs, DisplayFormatType, ExecutionPlan, PlanProperties};
use futures::Stream;
use std::future::Future;
use std::pin::Pin;
use std::sync::atomic::{AtomicU64, AtomicUsize, Ordering};
use std::sync::Arc;
use std::task::{Context, Poll};
use std::time::Duration;
use vcommon::Rng;

/// What the script decided for one poll.
#[derive(Clone, Copy, Debug, PartialEq, Eq)]
pub enum Step {
    Emit,
    Yield,
    Sleep(u64),
}

/// Seeded per-poll decision script (weights are relative).
#[derive(Clone, Debug)]
pub struct ChaosScript {
    pub seed: u64,
    pub w_emit: u32,
    pub w_yield: u32,
    pub w_sleep: u32,
    /// a sleep lasts 1..=max_sleep units
    pub max_sleep: u64,
    /// duration of one unit (1 ms for virtual time; use microseconds on a real clock)
    pub unit: Duration,
    /// upper bound on consecutive non-emitting decisions
    pub max_stall: u32,
}

impl ChaosScript {
    /// Always emit: the source behaves like a plain in-memory source.
    pub fn calm() -> Self {
        ChaosScript { seed: 0, w_emit: 1, w_yield: 0, w_sleep: 0, max_sleep: 1, unit: Duration::from_millis(1), max_stall: 0 }
    }
    /// For runtimes with a paused clock: sleeps are virtual milliseconds (free).
    pub fn virtual_ms(seed: u64) -> Self {
        ChaosScript { seed, w_emit: 6, w_yield: 5, w_sleep: 5, max_sleep: 40, unit: Duration::from_millis(1), max_stall: 3 }
    }
    /// For real-time (multi-thread) runtimes: short real sleeps.
    pub fn real_us(seed: u64) -> Self {
        ChaosScript { seed, w_emit: 8, w_yield: 6, w_sleep: 2, max_sleep: 60, unit: Duration::from_micros(1), max_stall: 2 }
    }
    fn decide(&self, rng: &mut Rng, stall: u32) -> Step {
        if stall >= self.max_stall {
            return Step::Emit;
        }
        match rng.weighted(&[self.w_emit, self.w_yield, self.w_sleep]) {
            0 => Step::Emit,
            1 => Step::Yield,
            _ => Step::Sleep(1 + rng.below(self.max_sleep.max(1))),
        }
    }
}

/// Counters shared by all streams of one source (and readable by the check afterwards).
#[derive(Debug, Default)]
pub struct ChaosProbe {
    /// streams opened and not yet dropped
    pub live: AtomicUsize,
    pub opened: AtomicUsize,
    pub polls: AtomicU64,
    pub emitted: AtomicU64,
    pub yields: AtomicU64,
    pub sleeps: AtomicU64,
    /// streams that delivered end-of-stream
    pub finished: AtomicUsize,
}

impl ChaosProbe {
    pub fn new() -> Arc<Self> {
        Arc::new(Self::default())
    }
    pub fn live(&self) -> usize {
        self.live.load(Ordering::SeqCst)
    }
}

#[derive(Debug, Clone)]
pub struct ChaosSourceExec {
    schema: SchemaRef,
    partitions: Arc<Vec<Vec<RecordBatch>>>,
    script: ChaosScript,
    probe: Arc<ChaosProbe>,
    cache: Arc<PlanProperties>,
}

impl ChaosSourceExec {
    pub fn new(schema: SchemaRef, partitions: Vec<Vec<RecordBatch>>, script: ChaosScript, probe: Arc<ChaosProbe>) -> Self {
        let n = partitions.len().max(1);
        let cache = PlanProperties::new(
            EquivalenceProperties::new(schema.clone()),
            Partitioning::UnknownPartitioning(n),
            EmissionType::Incremental,
            Boundedness::Bounded,
        );
        let partitions = if partitions.is_empty() { vec![vec![]] } else { partitions };
        ChaosSourceExec { schema, partitions: Arc::new(partitions), script, probe, cache: Arc::new(cache) }
    }

    /// Declare that every partition is sorted on `ordering` (the caller guarantees it).
    pub fn with_ordering(mut self, ordering: LexOrdering) -> Self {
        let eq = EquivalenceProperties::new_with_orderings(self.schema.clone(), [ordering]);
        let n = self.partitions.len();
        self.cache = Arc::new(PlanProperties::new(eq, Partitioning::UnknownPartitioning(n), EmissionType::Incremental, Boundedness::Bounded));
        self
    }

    pub fn probe(&self) -> &Arc<ChaosProbe> {
        &self.probe
    }
}

impl DisplayAs for ChaosSourceExec {
    fn fmt_as(&self, _t: DisplayFormatType, f: &mut std::fmt::Formatter) -> std::fmt::Result {
        write!(f, "ChaosSourceExec: partitions={}, seed={}", self.partitions.len(), self.script.seed)
    }
}

impl ExecutionPlan for ChaosSourceExec {
    fn name(&self) -> &str {
        "ChaosSourceExec"
    }
    fn properties(&self) -> &Arc<PlanProperties> {
        &self.cache
    }
    fn children(&self) -> Vec<&Arc<dyn ExecutionPlan>> {
        vec![]
    }
    fn apply_expressions(&self, _f: &mut dyn FnMut(&Arc<dyn PhysicalExpr>) -> Result<TreeNodeRecursion>) -> Result<TreeNodeRecursion> {
        Ok(TreeNodeRecursion::Continue)
    }
    fn with_new_children(self: Arc<Self>, _children: Vec<Arc<dyn ExecutionPlan>>) -> Result<Arc<dyn ExecutionPlan>> {
        Ok(self)
    }
    fn execute(&self, partition: usize, _context: Arc<TaskContext>) -> Result<SendableRecordBatchStream> {
        self.probe.live.fetch_add(1, Ordering::SeqCst);
        self.probe.opened.fetch_add(1, Ordering::SeqCst);
        Ok(Box::pin(ChaosStream {
            schema: self.schema.clone(),
            partitions: self.partitions.clone(),
            partition,
            next: 0,
            rng: Rng::derive(self.script.seed, &[0xC4A05, partition as u64]),
            script: self.script.clone(),
            sleep: None,
            stall: 0,
            done: false,
            probe: self.probe.clone(),
        }))
    }
}

struct ChaosStream {
    schema: SchemaRef,
    partitions: Arc<Vec<Vec<RecordBatch>>>,
    partition: usize,
    next: usize,
    rng: Rng,
    script: ChaosScript,
    sleep: Option<Pin<Box<tokio::time::Sleep>>>,
    stall: u32,
    done: bool,
    probe: Arc<ChaosProbe>,
}

impl Drop for ChaosStream {
    fn drop(&mut self) {
        self.probe.live.fetch_sub(1, Ordering::SeqCst);
    }
}

impl Stream for ChaosStream {
    type Item = Result<RecordBatch>;

    fn poll_next(mut self: Pin<&mut Self>, cx: &mut Context<'_>) -> Poll<Option<Self::Item>> {
        let this = &mut *self;
        this.probe.polls.fetch_add(1, Ordering::Relaxed);
        if this.done {
            return Poll::Ready(None);
        }
        if let Some(s) = this.sleep.as_mut() {
            match s.as_mut().poll(cx) {
                Poll::Pending => return Poll::Pending,
                Poll::Ready(()) => this.sleep = None,
            }
        }
        loop {
            match this.script.decide(&mut this.rng, this.stall) {
                Step::Emit => {
                    this.stall = 0;
                    let batches = &this.partitions[this.partition];
                    if this.next < batches.len() {
                        let b = batches[this.next].clone();
                        this.next += 1;
                        this.probe.emitted.fetch_add(1, Ordering::Relaxed);
                        return Poll::Ready(Some(Ok(b)));
                    }
                    this.done = true;
                    this.probe.finished.fetch_add(1, Ordering::SeqCst);
                    return Poll::Ready(None);
                }
                Step::Yield => {
                    this.stall += 1;
                    this.probe.yields.fetch_add(1, Ordering::Relaxed);
                    cx.waker().wake_by_ref();
                    return Poll::Pending;
                }
                Step::Sleep(d) => {
                    this.stall += 1;
                    this.probe.sleeps.fetch_add(1, Ordering::Relaxed);
                    let mut s = Box::pin(tokio::time::sleep(this.script.unit * d as u32));
                    match s.as_mut().poll(cx) {
                        Poll::Pending => {
                            this.sleep = Some(s);
                            return Poll::Pending;
                        }
                        Poll::Ready(()) => continue,
                    }
                }
            }
        }
    }
}

impl RecordBatchStream for ChaosStream {
    fn schema(&self) -> SchemaRef {
        self.schema.clone()
    }
}
