//! Accepted argument type lists of a scalar function, derived from its `Signature`.
//!
//! Every candidate list goes through the engine's own coercion (`fields_with_udf`); the *coerced*
//! list is what the function is invoked with by the engine, so that is what we keep. Lists are
//! grouped by their logical form (string / binary encodings collapsed); within a group the
//! members are the equivalent encodings the function accepts without a cast.

use arrow::datatypes::{DataType, Field, FieldRef, Fields, IntervalUnit, TimeUnit};
use datafusion_expr::type_coercion::functions::fields_with_udf;
use datafusion_common::ScalarValue;
use datafusion_expr::{ArrayFunctionArgument, ArrayFunctionSignature, ReturnFieldArgs, ScalarUDF, TypeSignature};
use datafusion_expr_common::signature::TIMEZONE_WILDCARD;
use std::collections::BTreeMap;
use std::sync::Arc;

pub fn list_of(t: DataType) -> DataType {
    DataType::List(Arc::new(Field::new_list_field(t, true)))
}

pub fn struct_ab() -> DataType {
    DataType::Struct(Fields::from(vec![Field::new("a", DataType::Int64, true), Field::new("b", DataType::Utf8, true)]))
}

pub fn map_of(k: DataType, v: DataType) -> DataType {
    let entries = Field::new("entries", DataType::Struct(Fields::from(vec![Field::new("key", k, false), Field::new("value", v, true)])), false);
    DataType::Map(Arc::new(entries), false)
}

/// Types used to probe `Any`, `VariadicAny`, `Comparable` and `UserDefined` signatures.
pub fn probe_pool() -> Vec<DataType> {
    use DataType::*;
    vec![
        Utf8,
        Int64,
        Float64,
        Utf8View,
        Boolean,
        Int32,
        Binary,
        Date32,
        Timestamp(TimeUnit::Nanosecond, None),
        Decimal128(10, 2),
        list_of(Int64),
        list_of(Utf8),
        LargeUtf8,
        UInt64,
        Timestamp(TimeUnit::Millisecond, Some("+00:00".into())),
        Interval(IntervalUnit::MonthDayNano),
        Time64(TimeUnit::Nanosecond),
        Duration(TimeUnit::Millisecond),
        struct_ab(),
        map_of(Utf8, Int64),
        Float32,
        Int8,
        UInt8,
        BinaryView,
        Null,
        list_of(list_of(Int64)),
        FixedSizeList(Arc::new(Field::new_list_field(Int64, true)), 3),
        FixedSizeBinary(4),
    ]
}

fn fix_wildcard(t: &DataType) -> DataType {
    match t {
        DataType::Timestamp(u, Some(tz)) if tz.as_ref() == TIMEZONE_WILDCARD => DataType::Timestamp(*u, Some("+05:00".into())),
        other => other.clone(),
    }
}

fn array_sig_candidates(sig: &ArrayFunctionSignature) -> Vec<Vec<DataType>> {
    use DataType::*;
    let elems = [Int64, Utf8, Float64, Utf8View];
    match sig {
        ArrayFunctionSignature::Array { arguments, .. } => {
            let mut out = vec![];
            for e in &elems {
                out.push(
                    arguments
                        .iter()
                        .map(|a| match a {
                            ArrayFunctionArgument::Element => e.clone(),
                            ArrayFunctionArgument::Index => Int64,
                            ArrayFunctionArgument::Array => list_of(e.clone()),
                            ArrayFunctionArgument::String => Utf8,
                        })
                        .collect(),
                );
            }
            // nested lists / other list kinds
            out.push(
                arguments
                    .iter()
                    .map(|a| match a {
                        ArrayFunctionArgument::Element => list_of(Int64),
                        ArrayFunctionArgument::Index => Int64,
                        ArrayFunctionArgument::Array => list_of(list_of(Int64)),
                        ArrayFunctionArgument::String => Utf8,
                    })
                    .collect(),
            );
            out.push(
                arguments
                    .iter()
                    .map(|a| match a {
                        ArrayFunctionArgument::Element => Int64,
                        ArrayFunctionArgument::Index => Int64,
                        ArrayFunctionArgument::Array => LargeList(Arc::new(Field::new_list_field(Int64, true))),
                        ArrayFunctionArgument::String => Utf8,
                    })
                    .collect(),
            );
            out
        }
        ArrayFunctionSignature::RecursiveArray => vec![vec![list_of(list_of(Int64))], vec![list_of(Int64)], vec![list_of(list_of(Utf8))]],
        ArrayFunctionSignature::MapArray => vec![vec![map_of(Utf8, Int64)], vec![map_of(Int64, Utf8)]],
    }
}

fn mixed_probes(max_arity: usize) -> Vec<Vec<DataType>> {
    use DataType::*;
    let pool = probe_pool();
    let mut out: Vec<Vec<DataType>> = vec![vec![]];
    for t in &pool {
        for n in 1..=max_arity {
            out.push(vec![t.clone(); n]);
        }
    }
    // every ordered pair of the first 16 pool types
    for a in pool.iter().take(16) {
        for b in pool.iter().take(16) {
            if a != b {
                out.push(vec![a.clone(), b.clone()]);
            }
        }
    }
    let ts = Timestamp(TimeUnit::Nanosecond, None);
    let curated: Vec<Vec<DataType>> = vec![
        vec![Utf8, Int64, Int64],
        vec![Utf8, Utf8, Int64],
        vec![Utf8, Int64, Utf8],
        vec![Utf8, Utf8, Utf8, Utf8],
        vec![Utf8, Utf8, Int64, Utf8],
        vec![Utf8View, Utf8View, Int64],
        vec![Utf8, Int64, Int64, Utf8],
        vec![Int64, Utf8, Utf8],
        vec![Int64, Int64, Utf8],
        vec![list_of(Int64), Int64, Int64],
        vec![list_of(Utf8), Utf8, Utf8],
        vec![list_of(Int64), list_of(Int64), list_of(Int64)],
        vec![list_of(Int64), Int64, Int64, Int64],
        vec![Utf8, ts.clone(), Utf8],
        vec![ts.clone(), Utf8, Utf8],
        vec![Interval(IntervalUnit::MonthDayNano), ts.clone(), ts.clone()],
        vec![Int64, ts.clone()],
        vec![Utf8, Int64, Int64, Int64],
        vec![Int64, Int64, Int64, Int64, Int64, Int64],
        vec![Int32, Int32, Int32],
        vec![Int32, Int32, Int32, Int32, Int32, Int32],
        vec![Int32, Int32, Int32, Int32, Int32, Float64],
        vec![Boolean, Utf8, Utf8],
        vec![Boolean, Int64, Int64],
        vec![Float64, Float64, Float64, Int64],
        vec![Float64, Int64],
        vec![Decimal128(10, 2), Int64],
        vec![struct_ab(), Utf8],
        vec![map_of(Utf8, Int64), Utf8],
        vec![Utf8, Int64, Utf8, Int64],
        vec![Utf8, Utf8, Utf8, Utf8, Utf8],
        vec![Binary, Utf8],
        vec![Utf8, Binary],
        vec![Date32, Int32],
        vec![Date32, Utf8],
        vec![Utf8, Date32],
    ];
    out.extend(curated);
    out
}

/// Raw candidates (before coercion) for one type signature.
fn candidates(sig: &TypeSignature) -> Vec<Vec<DataType>> {
    use DataType::*;
    match sig {
        TypeSignature::Exact(ts) => vec![ts.iter().map(fix_wildcard).collect()],
        TypeSignature::Uniform(n, ts) => ts.iter().map(|t| vec![fix_wildcard(t); *n]).collect(),
        TypeSignature::Variadic(ts) => ts.iter().flat_map(|t| (1..=3).map(move |n| vec![fix_wildcard(t); n])).collect(),
        TypeSignature::VariadicAny => {
            let mut out = vec![];
            for t in probe_pool().iter().take(12) {
                for n in 1..=3 {
                    out.push(vec![t.clone(); n]);
                }
            }
            out.push(vec![Utf8, Int64]);
            out.push(vec![Int64, Utf8, Float64]);
            out
        }
        TypeSignature::Any(n) => {
            let mut out: Vec<Vec<DataType>> = probe_pool().iter().take(14).map(|t| vec![t.clone(); *n]).collect();
            if *n >= 2 {
                let mut m = vec![Utf8; *n];
                m[1] = Int64;
                out.push(m);
                let mut m = vec![Int64; *n];
                m[1] = Utf8;
                out.push(m);
            }
            out
        }
        TypeSignature::Comparable(n) => {
            let mut out: Vec<Vec<DataType>> = probe_pool().iter().take(12).map(|t| vec![t.clone(); *n]).collect();
            if *n >= 2 {
                let mut m = vec![Int64; *n];
                m[1] = Int32;
                out.push(m);
                let mut m = vec![Utf8; *n];
                m[1] = Utf8View;
                out.push(m);
            }
            out
        }
        TypeSignature::Numeric(n) => [Int64, Float64, Int32, Float32, UInt64, Int8, Decimal128(10, 2), UInt8, Int16, Float16].iter().map(|t| vec![t.clone(); *n]).collect(),
        TypeSignature::String(n) => {
            let mut out: Vec<Vec<DataType>> = [Utf8, LargeUtf8, Utf8View].iter().map(|t| vec![t.clone(); *n]).collect();
            if *n >= 2 {
                let mut m = vec![Utf8; *n];
                m[1] = Utf8View;
                out.push(m);
            }
            out
        }
        TypeSignature::Coercible(_) => {
            let mut out = sig.get_example_types();
            out.truncate(400);
            let out: Vec<Vec<DataType>> = out.into_iter().map(|l| l.iter().map(fix_wildcard).collect()).collect();
            // classes without examples (Any): probe
            let arity = match sig.arity() {
                datafusion_expr_common::signature::Arity::Fixed(n) => n,
                _ => 0,
            };
            let mut extra = vec![];
            for t in probe_pool().iter().take(20) {
                extra.push(vec![t.clone(); arity]);
            }
            out.into_iter().chain(extra).chain(mixed_probes(1).into_iter().filter(|l| l.len() == arity)).collect()
        }
        TypeSignature::Nullary => vec![vec![]],
        TypeSignature::ArraySignature(a) => array_sig_candidates(a),
        TypeSignature::UserDefined => mixed_probes(4),
        TypeSignature::OneOf(sigs) => {
            // interleave so that every alternative gets an early slot
            let lists: Vec<Vec<Vec<DataType>>> = sigs.iter().map(candidates).collect();
            let mut out = vec![];
            let longest = lists.iter().map(|l| l.len()).max().unwrap_or(0);
            for i in 0..longest {
                for l in &lists {
                    if let Some(x) = l.get(i) {
                        out.push(x.clone());
                    }
                }
            }
            out
        }
    }
}

pub fn fields_of(types: &[DataType]) -> Vec<FieldRef> {
    types.iter().enumerate().map(|(i, t)| Arc::new(Field::new(format!("c{i}"), t.clone(), true))).collect()
}

/// The engine's coercion of `types` for `udf`; `None` when the list is rejected.
pub fn coerce(udf: &ScalarUDF, types: &[DataType]) -> Option<Vec<DataType>> {
    let fields = fields_of(types);
    let r = vcommon::par::guard(|| fields_with_udf(&fields, udf));
    match r {
        Ok(Ok(fs)) if fs.len() == types.len() => Some(fs.iter().map(|f| f.data_type().clone()).collect()),
        _ => None,
    }
}

/// accepted without any cast
pub fn accepts_exactly(udf: &ScalarUDF, types: &[DataType]) -> bool {
    coerce(udf, types).as_deref() == Some(types)
}

/// Collapse equivalent encodings: string / binary variants, dictionaries (recursively).
pub fn logical(t: &DataType) -> DataType {
    use DataType::*;
    match t {
        LargeUtf8 | Utf8View => Utf8,
        LargeBinary | BinaryView => Binary,
        Dictionary(_, v) => logical(v),
        List(f) => List(Arc::new(f.as_ref().clone().with_data_type(logical(f.data_type())))),
        LargeList(f) => LargeList(Arc::new(f.as_ref().clone().with_data_type(logical(f.data_type())))),
        FixedSizeList(f, n) => FixedSizeList(Arc::new(f.as_ref().clone().with_data_type(logical(f.data_type()))), *n),
        Struct(fs) => Struct(fs.iter().map(|f| Arc::new(f.as_ref().clone().with_data_type(logical(f.data_type())))).collect()),
        Map(f, s) => Map(Arc::new(f.as_ref().clone().with_data_type(logical(f.data_type()))), *s),
        other => other.clone(),
    }
}

/// Re-encode the string / binary leaves of a type.
pub fn with_string_enc(t: &DataType, s: &DataType, b: &DataType) -> DataType {
    use DataType::*;
    match t {
        Utf8 | LargeUtf8 | Utf8View => s.clone(),
        Binary | LargeBinary | BinaryView => b.clone(),
        List(f) => List(Arc::new(f.as_ref().clone().with_data_type(with_string_enc(f.data_type(), s, b)))),
        LargeList(f) => LargeList(Arc::new(f.as_ref().clone().with_data_type(with_string_enc(f.data_type(), s, b)))),
        FixedSizeList(f, n) => FixedSizeList(Arc::new(f.as_ref().clone().with_data_type(with_string_enc(f.data_type(), s, b))), *n),
        other => other.clone(),
    }
}

pub fn has_string_leaf(t: &DataType) -> bool {
    &with_string_enc(t, &DataType::Null, &DataType::Null) != t
}

/// has a Utf8-family leaf (as opposed to only binary leaves)
pub fn has_str_leaf(t: &DataType) -> bool {
    with_string_enc(t, &DataType::Null, &DataType::Boolean) != with_string_enc(t, &DataType::Boolean, &DataType::Boolean)
}

/// One logical signature of a function: the canonical (plain) type list plus the equivalent
/// encodings (whole-list substitutions) the function also accepts without a cast.
#[derive(Clone, Debug)]
pub struct TypeGroup {
    pub canonical: Vec<DataType>,
    /// (label, types): e.g. ("enc:Utf8View", ...), ("dict", ...) — all accepted unchanged by coercion
    pub variants: Vec<(String, Vec<DataType>)>,
}

fn canonical_rank(types: &[DataType]) -> usize {
    // prefer Utf8 / Binary / no dictionary as the canonical member
    types
        .iter()
        .map(|t| {
            let s = format!("{t}");
            (s.contains("LargeUtf8") as usize) + (s.contains("View") as usize) + (s.contains("LargeBinary") as usize) + 2 * (s.contains("Dictionary") as usize)
        })
        .sum()
}

pub fn dict_ok(t: &DataType) -> bool {
    use DataType::*;
    matches!(t, Utf8 | LargeUtf8 | Utf8View | Binary | LargeBinary | Int64 | Int32 | Float64 | Date32 | Boolean | Timestamp(_, _) | Decimal128(_, _))
}

/// Derive up to `max_groups` logical signatures for `udf`.
pub fn type_groups(udf: &ScalarUDF, max_groups: usize) -> Vec<TypeGroup> {
    type_groups_limited(udf, max_groups, 1500)
}

/// As [`type_groups`], probing at most `max_probes` candidate lists (reduced sanitizer stages).
pub fn type_groups_limited(udf: &ScalarUDF, max_groups: usize, max_probes: usize) -> Vec<TypeGroup> {
    use DataType::*;
    let raw = candidates(&udf.signature().type_signature);
    let mut groups: BTreeMap<String, Vec<Vec<DataType>>> = BTreeMap::new();
    let mut order: Vec<String> = vec![];
    let mut probes = 0;
    for c in raw {
        probes += 1;
        if probes > max_probes {
            break;
        }
        let Some(co) = coerce(udf, &c) else { continue };
        let key = format!("{:?}", co.iter().map(logical).collect::<Vec<_>>());
        let e = groups.entry(key.clone()).or_default();
        if e.is_empty() {
            order.push(key);
        }
        if !e.contains(&co) {
            e.push(co);
        }
    }
    // keep the lists for which a return field can be planned: with column arguments, or at least
    // with some constant arguments drawn from the value pools
    let mut pools: BTreeMap<String, Option<Vec<ScalarValue>>> = BTreeMap::new();
    let mut rng = vcommon::Rng::derive(0xC32, &[vcommon::fp_str(udf.name())]);
    let mut plannable: Vec<String> = vec![];
    for k in &order {
        let types = &groups[k][0];
        let fields = fields_of(types);
        let none: Vec<Option<&ScalarValue>> = vec![None; types.len()];
        let ok = |scalars: &[Option<&ScalarValue>]| matches!(vcommon::par::guard(|| udf.return_field_from_args(ReturnFieldArgs { arg_fields: &fields, scalar_arguments: scalars })), Ok(Ok(_)));
        let mut good = ok(&none);
        if !good && !types.is_empty() {
            let ps: Option<Vec<Vec<ScalarValue>>> = types
                .iter()
                .map(|t| pools.entry(t.to_string()).or_insert_with(|| super::vals::pool(t, super::vals::PoolOpts::default())).clone())
                .collect();
            if let Some(ps) = ps {
                for _ in 0..24 {
                    let vals: Vec<ScalarValue> = ps.iter().map(|p| rng.pick(p).clone()).collect();
                    let some: Vec<Option<&ScalarValue>> = vals.iter().map(Some).collect();
                    if ok(&some) {
                        good = true;
                        break;
                    }
                }
            }
        }
        if good {
            plannable.push(k.clone());
        }
    }
    if !plannable.is_empty() {
        order = plannable;
    }
    // diversity: rotate over arities, and inside one arity start at a different type each time
    let mut by_arity: BTreeMap<usize, Vec<String>> = BTreeMap::new();
    for k in &order {
        by_arity.entry(groups[k][0].len()).or_default().push(k.clone());
    }
    let mut picked: Vec<String> = vec![];
    let mut round = 0;
    while picked.len() < max_groups && picked.len() < order.len() && round < order.len() + 8 {
        for (b, (_, ks)) in by_arity.iter().enumerate() {
            if picked.len() >= max_groups {
                break;
            }
            // first unpicked key at or after the rotated position
            let start = (round + b) % ks.len();
            if let Some(k) = (0..ks.len()).map(|d| &ks[(start + d) % ks.len()]).find(|k| !picked.contains(k)) {
                picked.push(k.clone());
            }
        }
        round += 1;
    }
    let mut out = vec![];
    for k in picked {
        let mut members = groups.remove(&k).unwrap_or_default();
        members.sort_by_key(|m| canonical_rank(m));
        let canonical = members[0].clone();
        let mut variants: Vec<(String, Vec<DataType>)> = vec![];
        let push = |label: String, types: Vec<DataType>, variants: &mut Vec<(String, Vec<DataType>)>| {
            if types != canonical && !variants.iter().any(|(_, t)| *t == types) && accepts_exactly(udf, &types) {
                variants.push((label, types));
            }
        };
        // whole-list string/binary re-encodings
        if canonical.iter().any(has_string_leaf) {
            for (s, b) in [(Utf8, Binary), (LargeUtf8, LargeBinary), (Utf8View, BinaryView)] {
                let v: Vec<DataType> = canonical.iter().map(|t| with_string_enc(t, &s, &b)).collect();
                let label = if canonical.iter().any(has_str_leaf) { format!("enc:{s}") } else { format!("enc:{b}") };
                push(label, v, &mut variants);
            }
            // one argument at a time
            if canonical.len() >= 2 {
                for j in 0..canonical.len() {
                    if !has_string_leaf(&canonical[j]) {
                        continue;
                    }
                    for (s, b) in [(LargeUtf8, LargeBinary), (Utf8View, BinaryView), (Utf8, Binary)] {
                        let mut v = canonical.clone();
                        v[j] = with_string_enc(&v[j], &s, &b);
                        let label = if has_str_leaf(&canonical[j]) { format!("enc-arg:{s}") } else { format!("enc-arg:{b}") };
                        push(label, v, &mut variants);
                    }
                }
            }
        }
        // dictionary encoding of one argument
        for j in 0..canonical.len() {
            if dict_ok(&canonical[j]) {
                let mut v = canonical.clone();
                v[j] = Dictionary(Box::new(Int32), Box::new(canonical[j].clone()));
                push("dict".to_string(), v, &mut variants);
            }
        }
        if canonical.len() >= 2 && canonical.iter().all(dict_ok) {
            // Int16 keys: functions that merge the dictionaries of all arguments into one result
            // dictionary must have room for the union of the (padded) dictionaries
            let v: Vec<DataType> = canonical.iter().map(|t| Dictionary(Box::new(Int16), Box::new(t.clone()))).collect();
            push("dict".to_string(), v, &mut variants);
        }
        // members found by probing that are not whole-list substitutions (mixed encodings)
        for m in members.iter().skip(1) {
            if !variants.iter().any(|(_, t)| t == m) {
                let label = if m.iter().any(|t| matches!(t, Dictionary(_, _))) { "dict".to_string() } else { "enc-mixed".to_string() };
                variants.push((label, m.clone()));
            }
        }
        out.push(TypeGroup { canonical, variants });
    }
    out
}
