//! Typed value pools (logical values as `ScalarValue`s of the *canonical* type).

use arrow::array::*;
use arrow::buffer::{NullBuffer, OffsetBuffer};
use arrow::datatypes::*;
use datafusion_common::ScalarValue;
use std::sync::Arc;
use vcommon::Rng;

/// General strings: empty, ASCII, > 12 bytes (view inline limit), exactly 12 bytes, multi-byte,
/// combining marks, case-mapping changes length, LIKE / regex meta characters …
pub const STRS: &[&str] = &[
    "",
    "a",
    "abc",
    "ABC",
    "Hello World",
    " pad ",
    "  ",
    "abcdefghijkl",
    "abcdefghijklm",
    "the quick brown fox jumps over the lazy dog",
    "ünïcödé",
    "日本語テキスト",
    "e\u{301}le\u{300}ve",
    "👍🏽x",
    "ß",
    "İstanbul",
    "ǆ",
    "a,b,c",
    "a b c",
    "%",
    "_",
    "a%b_c",
    "\\",
    "x\ty\nz",
    "aaa",
    "abcabc",
    "b",
    "ab",
    "Ab",
    "tab\there",
    "ΑΒΓ αβγ",
    "ﬃ",
];

/// Strings with a meaning for some function argument (numbers, dates, patterns, tokens …).
pub const TOKENS: &[&str] = &[
    "0",
    "1",
    "-1",
    "12",
    "3.14",
    "1e3",
    "NaN",
    "inf",
    "ff",
    "FF00",
    "9223372036854775807",
    "true",
    "false",
    "2020-02-29",
    "2020-02-29T12:34:56",
    "2020-02-29 12:34:56.789+05:00",
    "1970-01-01T00:00:00Z",
    "12:34:56",
    "29/02/2020 12:34",
    "year",
    "month",
    "day",
    "hour",
    "minute",
    "second",
    "week",
    "quarter",
    "dow",
    "epoch",
    "millisecond",
    "hex",
    "base64",
    "UTC",
    "+05:00",
    "America/New_York",
    "%Y-%m-%d",
    "%H:%M:%S",
    "%d/%m/%Y %H:%M",
    "yyyy-MM-dd",
    "yyyy-MM-dd HH:mm:ss",
    "a.*",
    "(a)(b)",
    "^[a-z]+$",
    "[",
    "\\d+",
    "b+",
    "i",
    "g",
    "im",
    "sha256",
    "md5",
    "sha512",
    "blake3",
    "http://user:pw@example.com:8080/p/a?q=1&r=2#frag",
    "HOST",
    "QUERY",
    "q",
    "{\"a\":1,\"b\":[1,2],\"c\":{\"d\":\"x\"}}",
    "$.a",
    "$.b[1]",
    "<a><b>1</b><b>2</b></a>",
    "a/b",
    "a/b/text()",
    "aGVsbG8=",
    "68656c6c6f",
    "%s and %d",
    "%5.2f|%-5s|",
    "4111111111111111",
    "1 year 2 months",
    "Int64",
    "Utf8",
    "a",
    "b",
    "c",
    ",",
    " ",
    "both",
    "leading",
    "en",
    "MONDAY",
    "MON",
    "SU",
    "utf-8",
    "UTF-16",
    "1,2,3",
    "a=1,b=2",
];

pub fn int_candidates(min: i128, max: i128) -> Vec<i128> {
    let raw: Vec<i128> = vec![
        0, 1, -1, 2, 3, 4, 5, 7, 8, 10, 12, 13, 16, 31, 32, 60, 64, 100, 127, 128, 255, 256, 1000, 2020, 20000, 65535, 65536, 86400, 1582979696, -2, -3, -5, -10, -13, -100, -128, -20000,
        i32::MAX as i128, i32::MIN as i128, i64::MAX as i128, i64::MIN as i128, i64::MIN as i128 + 1, u32::MAX as i128, min, max, min + 1, max - 1,
    ];
    let mut out: Vec<i128> = vec![];
    for v in raw {
        if v >= min && v <= max && !out.contains(&v) {
            out.push(v);
        }
    }
    out
}

const FLOATS: &[f64] = &[
    0.0, -0.0, 1.0, -1.0, 0.5, -0.5, 1.5, 2.5, -2.5, 2.0, 3.0, 10.0, 100.0, 255.0, 3.141592653589793, 2.718281828459045, 1e-10, 1e10, 1e300, -1e300, 123456.789, 0.1, 0.3, 1e-320,
    f64::MAX, f64::MIN, f64::MIN_POSITIVE, f64::NAN, f64::INFINITY, f64::NEG_INFINITY, 9007199254740993.0, 4294967296.0, 20000.0, 12.0,
];

/// Options that bound dangerous values for one function.
#[derive(Clone, Copy, Debug, Default)]
pub struct PoolOpts {
    /// integer magnitudes are capped (functions that allocate proportionally to an integer argument)
    pub int_cap: Option<i128>,
    /// dates / timestamps / intervals are kept in a narrow range with coarse steps (series generators)
    pub small_time: bool,
}

fn cap(v: Vec<i128>, o: PoolOpts) -> Vec<i128> {
    match o.int_cap {
        None => v,
        Some(c) => {
            let mut out: Vec<i128> = vec![];
            for x in v {
                let y = x.clamp(-c, c);
                if !out.contains(&y) {
                    out.push(y);
                }
            }
            out
        }
    }
}

fn sv_from_array(a: ArrayRef) -> Option<ScalarValue> {
    ScalarValue::try_from_array(a.as_ref(), 0).ok()
}

fn unit_mult(u: &TimeUnit) -> i64 {
    match u {
        TimeUnit::Second => 1,
        TimeUnit::Millisecond => 1_000,
        TimeUnit::Microsecond => 1_000_000,
        TimeUnit::Nanosecond => 1_000_000_000,
    }
}

/// Single-row list array [vals] of element type `elem`, cast to `target`.
fn list_scalar(vals: &[ScalarValue], elem: &DataType, target: &DataType) -> Option<ScalarValue> {
    let child: ArrayRef = if vals.is_empty() { new_empty_array(elem) } else { ScalarValue::iter_to_array(vals.iter().cloned()).ok()? };
    let field = Arc::new(Field::new_list_field(elem.clone(), true));
    let la = ListArray::try_new(field, OffsetBuffer::from_lengths([child.len()]), child, None).ok()?;
    let a: ArrayRef = Arc::new(la);
    let a = if a.data_type() == target { a } else { arrow::compute::cast(&a, target).ok()? };
    sv_from_array(a)
}

/// All non-null pool values of `dt` (deterministic order); `None` if the type is not supported.
pub fn pool(dt: &DataType, o: PoolOpts) -> Option<Vec<ScalarValue>> {
    use DataType::*;
    macro_rules! ints {
        ($t:ty, $v:ident) => {
            Some(cap(int_candidates(<$t>::MIN as i128, <$t>::MAX as i128), o).into_iter().map(|x| ScalarValue::$v(Some(x as $t))).collect())
        };
    }
    let strs = || STRS.iter().chain(TOKENS.iter()).map(|s| s.to_string());
    match dt {
        Null => Some(vec![ScalarValue::Null]),
        Boolean => Some(vec![ScalarValue::Boolean(Some(true)), ScalarValue::Boolean(Some(false))]),
        Int8 => ints!(i8, Int8),
        Int16 => ints!(i16, Int16),
        Int32 => ints!(i32, Int32),
        Int64 => ints!(i64, Int64),
        UInt8 => ints!(u8, UInt8),
        UInt16 => ints!(u16, UInt16),
        UInt32 => ints!(u32, UInt32),
        UInt64 => ints!(u64, UInt64),
        Float64 => Some(FLOATS.iter().map(|f| ScalarValue::Float64(Some(*f))).collect()),
        Float32 => Some(FLOATS.iter().map(|f| ScalarValue::Float32(Some(*f as f32))).collect()),
        Float16 => Some(FLOATS.iter().map(|f| ScalarValue::Float16(Some(half::f16::from_f64(*f)))).collect()),
        Decimal32(p, s) | Decimal64(p, s) | Decimal128(p, s) | Decimal256(p, s) => {
            let maxp = 10i128.checked_pow((*p as u32).min(38))?.checked_sub(1)?;
            let one = 10i128.checked_pow((*s).max(0) as u32)?;
            let raw = [0, 1, -1, one, -one, one + one / 2, one * 2 + one / 2, 12345, -12345, 100, 99, maxp, -maxp, one * 20000];
            let mut vs: Vec<i128> = vec![];
            for v in raw {
                if v.abs() <= maxp && !vs.contains(&v) {
                    vs.push(v);
                }
            }
            Some(
                vs.into_iter()
                    .filter_map(|v| match dt {
                        Decimal32(..) => i32::try_from(v).ok().map(|x| ScalarValue::Decimal32(Some(x), *p, *s)),
                        Decimal64(..) => i64::try_from(v).ok().map(|x| ScalarValue::Decimal64(Some(x), *p, *s)),
                        Decimal128(..) => Some(ScalarValue::Decimal128(Some(v), *p, *s)),
                        _ => Some(ScalarValue::Decimal256(Some(i256::from_i128(v)), *p, *s)),
                    })
                    .collect(),
            )
        }
        Utf8 => Some(strs().map(|s| ScalarValue::Utf8(Some(s))).collect()),
        LargeUtf8 => Some(strs().map(|s| ScalarValue::LargeUtf8(Some(s))).collect()),
        Utf8View => Some(strs().map(|s| ScalarValue::Utf8View(Some(s))).collect()),
        Binary | LargeBinary | BinaryView => {
            let mut bs: Vec<Vec<u8>> = STRS.iter().take(16).map(|s| s.as_bytes().to_vec()).collect();
            bs.extend([vec![0u8], vec![0xff, 0xfe, 0x00, 0x80], vec![0x80; 13], b"aGVsbG8=".to_vec(), b"68656c6c6f".to_vec(), (0u8..40).collect()]);
            Some(
                bs.into_iter()
                    .map(|b| match dt {
                        Binary => ScalarValue::Binary(Some(b)),
                        LargeBinary => ScalarValue::LargeBinary(Some(b)),
                        _ => ScalarValue::BinaryView(Some(b)),
                    })
                    .collect(),
            )
        }
        FixedSizeBinary(n) => {
            let n = *n as usize;
            Some([0u8, 1, 0x7f, 0xff, b'a'].iter().map(|b| ScalarValue::FixedSizeBinary(n as i32, Some((0..n).map(|i| b.wrapping_add(i as u8 * (*b != 0) as u8)).collect()))).collect())
        }
        Date32 if o.small_time => Some([18321, 18322, 18320, 18350, 18262, 18686, 18291].iter().map(|d| ScalarValue::Date32(Some(*d))).collect()),
        Date64 if o.small_time => Some([18321i64, 18322, 18320, 18350, 18291].iter().map(|d| ScalarValue::Date64(Some(*d * 86_400_000))).collect()),
        Date32 => Some([0, 1, -1, 18321, 18322, 19000, 59, 60, 365, -365, 11016, 2932896, -719528, 100000, -100000, i32::MAX, i32::MIN].iter().map(|d| ScalarValue::Date32(Some(*d))).collect()),
        Date64 => Some([0i64, 1, -1, 18321, 19000, 59, 365, -365, 2932896, -719528].iter().map(|d| ScalarValue::Date64(Some(*d * 86_400_000))).collect()),
        Time32(TimeUnit::Second) => Some([0, 1, 45296, 86399, 3600].iter().map(|t| ScalarValue::Time32Second(Some(*t))).collect()),
        Time32(_) => Some([0, 1, 45296789, 86399999, 3600000].iter().map(|t| ScalarValue::Time32Millisecond(Some(*t))).collect()),
        Time64(TimeUnit::Microsecond) => Some([0i64, 1, 45296789012, 86399999999, 3600000000].iter().map(|t| ScalarValue::Time64Microsecond(Some(*t))).collect()),
        Time64(_) => Some([0i64, 1, 45296789012345, 86399999999999, 3600000000000].iter().map(|t| ScalarValue::Time64Nanosecond(Some(*t))).collect()),
        Timestamp(u, tz) => {
            let m = unit_mult(u);
            let secs: [i64; 14] = [0, 1, -1, 1582979696, 1583020800, 951782400, 1604212200, 1615708800, -2208988800, 4102444800, 253402300799, -62135596800, 86399, 1700000000];
            let mut vs: Vec<i64> = secs.iter().filter_map(|s| s.checked_mul(m)).collect();
            vs.extend([1582979696i64.wrapping_mul(m).wrapping_add(m / 2 + 123), i64::MAX, i64::MIN + 1, 999]);
            if o.small_time {
                vs = [1582979696i64, 1582979696 + 3600, 1582979696 + 7200, 1583020800, 1582934400, 1583107200, 1582848000, 1582979696 - 90000].iter().map(|s| s * m).collect();
            }
            Some(
                vs.into_iter()
                    .map(|v| match u {
                        TimeUnit::Second => ScalarValue::TimestampSecond(Some(v), tz.clone()),
                        TimeUnit::Millisecond => ScalarValue::TimestampMillisecond(Some(v), tz.clone()),
                        TimeUnit::Microsecond => ScalarValue::TimestampMicrosecond(Some(v), tz.clone()),
                        TimeUnit::Nanosecond => ScalarValue::TimestampNanosecond(Some(v), tz.clone()),
                    })
                    .collect(),
            )
        }
        Duration(u) => Some(
            [0i64, 1, -1, 1000, 86_400_000, -3_600_000, 123456789, i64::MAX, i64::MIN + 1]
                .iter()
                .map(|v| match u {
                    TimeUnit::Second => ScalarValue::DurationSecond(Some(*v)),
                    TimeUnit::Millisecond => ScalarValue::DurationMillisecond(Some(*v)),
                    TimeUnit::Microsecond => ScalarValue::DurationMicrosecond(Some(*v)),
                    TimeUnit::Nanosecond => ScalarValue::DurationNanosecond(Some(*v)),
                })
                .collect(),
        ),
        Interval(IntervalUnit::YearMonth) if o.small_time => Some([1, -1, 12, 0].iter().map(|v| ScalarValue::IntervalYearMonth(Some(*v))).collect()),
        Interval(IntervalUnit::DayTime) if o.small_time => Some([(1, 0), (0, 3_600_000), (-1, 0), (0, 0), (7, 0)].iter().map(|(d, ms)| ScalarValue::IntervalDayTime(Some(IntervalDayTime::new(*d, *ms)))).collect()),
        Interval(IntervalUnit::MonthDayNano) if o.small_time => Some(
            [(0, 1, 0i64), (0, 0, 3_600_000_000_000), (1, 0, 0), (0, -1, 0), (0, 0, 0), (0, 0, -7_200_000_000_000), (0, 7, 0)]
                .iter()
                .map(|(m, d, n)| ScalarValue::IntervalMonthDayNano(Some(IntervalMonthDayNano::new(*m, *d, *n))))
                .collect(),
        ),
        Interval(IntervalUnit::YearMonth) => Some([0, 1, -1, 12, 14, -25, 1200].iter().map(|v| ScalarValue::IntervalYearMonth(Some(*v))).collect()),
        Interval(IntervalUnit::DayTime) => {
            Some([(0, 0), (1, 0), (0, 1), (-1, 0), (1, -1), (30, 3_600_000), (365, 86_399_999)].iter().map(|(d, ms)| ScalarValue::IntervalDayTime(Some(IntervalDayTime::new(*d, *ms)))).collect())
        }
        Interval(IntervalUnit::MonthDayNano) => Some(
            [(0, 0, 0i64), (1, 0, 0), (0, 1, 0), (0, 0, 1), (-1, 0, 0), (0, -1, 0), (1, 1, 1), (14, 3, 3_600_000_000_000), (0, 0, 900_000_000_000), (0, 0, -1_500_000_000), (1200, 365, 86_399_999_999_999)]
                .iter()
                .map(|(m, d, n)| ScalarValue::IntervalMonthDayNano(Some(IntervalMonthDayNano::new(*m, *d, *n))))
                .collect(),
        ),
        List(f) | LargeList(f) => {
            let elem = f.data_type();
            let ep = pool(elem, o)?;
            let nul = ScalarValue::try_new_null(elem).ok()?;
            let mut out = vec![];
            let pick = |i: usize| ep[i % ep.len()].clone();
            let shapes: Vec<Vec<ScalarValue>> = vec![
                vec![],
                vec![pick(0)],
                vec![pick(1), pick(2), pick(3)],
                vec![pick(2), nul.clone(), pick(1)],
                vec![nul.clone()],
                vec![pick(1), pick(1), pick(2), pick(2), pick(1)],
                vec![pick(5), pick(4), pick(3), pick(2), pick(1), pick(0)],
                vec![pick(3), pick(2), pick(1)],
                vec![nul.clone(), nul.clone()],
                (0..9).map(|i| pick(7 + 3 * i)).collect(),
                vec![pick(10), pick(11)],
            ];
            for s in shapes {
                out.push(list_scalar(&s, elem, dt)?);
            }
            Some(out)
        }
        FixedSizeList(f, n) => {
            let elem = f.data_type();
            let ep = pool(elem, o)?;
            let nul = ScalarValue::try_new_null(elem).ok()?;
            let n = *n as usize;
            let mut out = vec![];
            for k in 0..5usize {
                let vals: Vec<ScalarValue> = (0..n).map(|i| if k == 3 && i == 1 { nul.clone() } else { ep[(k * 3 + i * (k + 1)) % ep.len()].clone() }).collect();
                let child = ScalarValue::iter_to_array(vals).ok()?;
                let a = FixedSizeListArray::try_new(f.clone(), n as i32, child, None).ok()?;
                out.push(sv_from_array(Arc::new(a))?);
            }
            Some(out)
        }
        Struct(fields) => {
            let pools: Vec<Vec<ScalarValue>> = fields.iter().map(|f| pool(f.data_type(), o)).collect::<Option<Vec<_>>>()?;
            let mut out = vec![];
            for k in 0..8usize {
                let cols: Vec<ArrayRef> = fields
                    .iter()
                    .zip(pools.iter())
                    .enumerate()
                    .map(|(i, (f, p))| {
                        let v = if k == 5 && i == 0 { ScalarValue::try_new_null(f.data_type()).ok()? } else { p[(k * (i + 2) + i) % p.len()].clone() };
                        v.to_array().ok()
                    })
                    .collect::<Option<Vec<_>>>()?;
                let sa = StructArray::try_new(fields.clone(), cols, None).ok()?;
                out.push(sv_from_array(Arc::new(sa))?);
            }
            Some(out)
        }
        Map(entries, sorted) => {
            let Struct(kv) = entries.data_type() else { return None };
            let kp = pool(kv[0].data_type(), o)?;
            let vp = pool(kv[1].data_type(), o)?;
            let vnul = ScalarValue::try_new_null(kv[1].data_type()).ok()?;
            let mut out = vec![];
            for k in 0..6usize {
                let n = [0usize, 1, 2, 3, 2, 4][k];
                // distinct keys
                let keys: Vec<ScalarValue> = (0..n).map(|i| kp[(k + 1 + i * 5) % kp.len()].clone()).collect();
                let mut uniq: Vec<ScalarValue> = vec![];
                for x in keys {
                    if !uniq.contains(&x) {
                        uniq.push(x);
                    }
                }
                let vals: Vec<ScalarValue> = (0..uniq.len()).map(|i| if k == 4 && i == 0 { vnul.clone() } else { vp[(k * 7 + i) % vp.len()].clone() }).collect();
                let ka: ArrayRef = if uniq.is_empty() { new_empty_array(kv[0].data_type()) } else { ScalarValue::iter_to_array(uniq.clone()).ok()? };
                let va: ArrayRef = if vals.is_empty() { new_empty_array(kv[1].data_type()) } else { ScalarValue::iter_to_array(vals).ok()? };
                let st = StructArray::try_new(kv.clone(), vec![ka, va], None).ok()?;
                let ma = MapArray::try_new(entries.clone(), OffsetBuffer::from_lengths([uniq.len()]), st, None, *sorted).ok()?;
                out.push(sv_from_array(Arc::new(ma))?);
            }
            Some(out)
        }
        Dictionary(k, v) => Some(pool(v, o)?.into_iter().map(|x| ScalarValue::Dictionary(k.clone(), Box::new(x))).collect()),
        _ => None,
    }
}

pub fn null_of(dt: &DataType) -> ScalarValue {
    ScalarValue::try_new_null(dt).unwrap_or(ScalarValue::Null)
}

/// Per-argument pools for one type list.
pub struct ArgPools {
    pub types: Vec<DataType>,
    pub pools: Vec<Vec<ScalarValue>>,
}

impl ArgPools {
    pub fn new(types: &[DataType], o: PoolOpts) -> Option<ArgPools> {
        let pools = types.iter().map(|t| pool(t, o)).collect::<Option<Vec<_>>>()?;
        Some(ArgPools { types: types.to_vec(), pools })
    }

    /// one random logical row; NULL with probability ~1/7 per argument
    pub fn row(&self, rng: &mut Rng) -> Vec<ScalarValue> {
        self.pools
            .iter()
            .zip(self.types.iter())
            .map(|(p, t)| if rng.chance(1, 7) || p.is_empty() { null_of(t) } else { rng.pick(p).clone() })
            .collect()
    }
}

/// Build the canonical (plain, offset 0, validity buffer only when needed) array of a column.
pub fn column(values: &[ScalarValue], dt: &DataType) -> Result<ArrayRef, String> {
    if values.is_empty() {
        return Ok(new_empty_array(dt));
    }
    let a = ScalarValue::iter_to_array(values.iter().cloned()).map_err(|e| e.to_string())?;
    if a.data_type() != dt {
        return arrow::compute::cast(&a, dt).map_err(|e| e.to_string());
    }
    Ok(a)
}

/// `a` with an explicit validity buffer equal to `nulls` (values under NULL slots stay whatever `a` holds).
pub fn with_nulls(a: &ArrayRef, nulls: Option<NullBuffer>) -> Result<ArrayRef, String> {
    let data = a.to_data().into_builder().nulls(nulls).build().map_err(|e| e.to_string())?;
    Ok(make_array(data))
}
