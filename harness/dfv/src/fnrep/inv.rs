//! Guarded invocation of a scalar function in a given representation, and per-row comparison.

use super::enc::{materialize, ArgRep, Rep};
use super::types::logical;
use arrow::array::*;
use arrow::buffer::NullBuffer;
use arrow::datatypes::*;
use datafusion_common::config::ConfigOptions;
use datafusion_common::ScalarValue;
use datafusion_expr::{ColumnarValue, ReturnFieldArgs, ScalarFunctionArgs, ScalarUDF};
use std::sync::Arc;

pub struct OkOut {
    /// result expanded to one value per row, string/binary/dictionary encodings collapsed
    pub norm: ArrayRef,
    /// physical type of the returned value
    pub raw_type: DataType,
    /// field promised by `return_field_from_args` for exactly these argument fields
    pub declared: FieldRef,
    /// length of the returned array (None: a scalar was returned)
    pub raw_len: Option<usize>,
    /// the raw returned value, expanded to `rows` rows (not normalised)
    pub raw: ArrayRef,
}

pub enum Out {
    Ok(OkOut),
    /// the representation cannot be built by the harness or `return_field_from_args` rejects it
    Rejected(String),
    Err(String),
    Panic(String),
}

impl Out {
    pub fn is_ok(&self) -> bool {
        matches!(self, Out::Ok(_))
    }
    pub fn failed(&self) -> bool {
        matches!(self, Out::Err(_) | Out::Panic(_))
    }
    pub fn message(&self) -> String {
        match self {
            Out::Ok(_) => "ok".into(),
            Out::Rejected(m) => format!("rejected: {m}"),
            Out::Err(m) => format!("error: {m}"),
            Out::Panic(m) => format!("panic: {m}"),
        }
    }
}

pub fn normalize(a: &ArrayRef) -> ArrayRef {
    let t = logical(a.data_type());
    if &t == a.data_type() {
        return a.clone();
    }
    match vcommon::par::guard(|| arrow::compute::cast(a, &t)) {
        Ok(Ok(x)) => x,
        _ => a.clone(),
    }
}

pub fn short(s: &str) -> String {
    s.chars().take(300).collect()
}

/// The arguments one invocation would receive.
pub struct Prepared {
    pub args: Vec<ColumnarValue>,
    pub arg_fields: Vec<FieldRef>,
    pub return_field: FieldRef,
    pub rows: usize,
}

/// Build the arguments of rows `[start, start+len)` of the logical columns `cols` in representation `reps`.
pub fn prepare(udf: &ScalarUDF, cols: &[Vec<ScalarValue>], types: &[DataType], reps: &[ArgRep], start: usize, len: usize, garbage: &[Vec<ScalarValue>]) -> Result<Prepared, String> {
    let mut args = Vec::with_capacity(cols.len());
    for j in 0..cols.len() {
        let r = vcommon::par::guard(|| materialize(&cols[j][start..start + len], &types[j], &reps[j], &garbage[j]));
        match r {
            Ok(Ok(v)) => args.push(v),
            Ok(Err(e)) => return Err(e),
            Err(p) => return Err(format!("harness panic building argument: {p}")),
        }
    }
    let arg_fields: Vec<FieldRef> = reps.iter().enumerate().map(|(j, r)| Arc::new(Field::new(format!("c{j}"), r.ty.clone(), true))).collect();
    let scalars: Vec<Option<&ScalarValue>> = args.iter().map(|a| if let ColumnarValue::Scalar(s) = a { Some(s) } else { None }).collect();
    let rf = vcommon::par::guard(|| udf.return_field_from_args(ReturnFieldArgs { arg_fields: &arg_fields, scalar_arguments: &scalars }));
    let return_field = match rf {
        Ok(Ok(f)) => f,
        Ok(Err(e)) => return Err(format!("return_field_from_args: {}", short(&e.to_string()))),
        Err(p) => return Err(format!("return_field_from_args panicked: {p}")),
    };
    Ok(Prepared { args, arg_fields, return_field, rows: len })
}

/// Invoke `udf` (its implementation directly, so that the debug-only type assertion of the
/// `ScalarUDF` wrapper does not pre-empt our own check) on prepared arguments.
pub fn invoke_prepared(udf: &ScalarUDF, p: Prepared, cfg: &Arc<ConfigOptions>) -> Out {
    let declared = p.return_field.clone();
    let rows = p.rows;
    let all_scalar = !p.args.is_empty() && p.args.iter().all(|a| matches!(a, ColumnarValue::Scalar(_)));
    let fa = ScalarFunctionArgs { args: p.args, arg_fields: p.arg_fields, number_rows: rows, return_field: p.return_field, config_options: cfg.clone() };
    let r = vcommon::par::guard(|| udf.inner().invoke_with_args(fa));
    finish(r, declared, rows, all_scalar)
}

/// `all_scalar`: every argument was a scalar (and there was at least one). The engine
/// (`ScalarFunctionExpr::evaluate`) documents that a one-element array is then equivalent to a scalar.
pub fn finish(r: Result<datafusion_common::Result<ColumnarValue>, String>, declared: FieldRef, rows: usize, all_scalar: bool) -> Out {
    match r {
        Err(p) => Out::Panic(short(&p)),
        Ok(Err(e)) => Out::Err(short(&e.to_string())),
        Ok(Ok(v)) => {
            let v = match v {
                ColumnarValue::Array(a) if all_scalar && a.len() == 1 && rows != 1 => match ScalarValue::try_from_array(a.as_ref(), 0) {
                    Ok(s) => ColumnarValue::Scalar(s),
                    Err(_) => ColumnarValue::Array(a),
                },
                other => other,
            };
            let raw_type = v.data_type();
            let raw_len = match &v {
                ColumnarValue::Array(a) => Some(a.len()),
                ColumnarValue::Scalar(_) => None,
            };
            let arr = match vcommon::par::guard(|| v.into_array(rows)) {
                Ok(Ok(a)) => a,
                Ok(Err(e)) => return Out::Err(format!("result cannot be expanded to an array: {}", short(&e.to_string()))),
                Err(p) => return Out::Panic(format!("expanding the result: {}", short(&p))),
            };
            let norm = normalize(&arr);
            Out::Ok(OkOut { norm, raw_type, declared, raw_len, raw: arr })
        }
    }
}

pub fn invoke_chunk(udf: &ScalarUDF, cols: &[Vec<ScalarValue>], types: &[DataType], reps: &[ArgRep], start: usize, len: usize, garbage: &[Vec<ScalarValue>], cfg: &Arc<ConfigOptions>) -> Out {
    match prepare(udf, cols, types, reps, start, len, garbage) {
        Ok(p) => invoke_prepared(udf, p, cfg),
        Err(e) => Out::Rejected(e),
    }
}

/// Invoke over all chunks of the representation's split of `n` rows (`cols[j].len() == n`). Returns (start, len, outcome) per chunk.
pub fn invoke_rep(udf: &ScalarUDF, cols: &[Vec<ScalarValue>], types: &[DataType], rep: &Rep, n: usize, garbage: &[Vec<ScalarValue>], cfg: &Arc<ConfigOptions>) -> Vec<(usize, usize, Out)> {
    rep.split.ranges(n).into_iter().map(|(s, l)| (s, l, invoke_chunk(udf, cols, types, &rep.args, s, l, garbage, cfg))).collect()
}

fn float_eq(a: f64, b: f64) -> bool {
    (a.is_nan() && b.is_nan()) || a.to_bits() == b.to_bits()
}

/// Logical equality of row `i` of `a` and row `j` of `b` (both normalised, same type).
pub fn cell_eq(a: &ArrayRef, i: usize, b: &ArrayRef, j: usize) -> bool {
    let an = a.logical_nulls().map(|n| n.is_null(i)).unwrap_or(false);
    let bn = b.logical_nulls().map(|n| n.is_null(j)).unwrap_or(false);
    if an || bn {
        return an == bn;
    }
    match (a.data_type(), b.data_type()) {
        (DataType::Float64, DataType::Float64) => float_eq(a.as_primitive::<Float64Type>().value(i), b.as_primitive::<Float64Type>().value(j)),
        (DataType::Float32, DataType::Float32) => float_eq(a.as_primitive::<Float32Type>().value(i) as f64, b.as_primitive::<Float32Type>().value(j) as f64),
        (DataType::Float16, DataType::Float16) => float_eq(a.as_primitive::<Float16Type>().value(i).to_f64(), b.as_primitive::<Float16Type>().value(j).to_f64()),
        _ => match (ScalarValue::try_from_array(a.as_ref(), i), ScalarValue::try_from_array(b.as_ref(), j)) {
            (Ok(x), Ok(y)) => x == y,
            _ => render(a, i) == render(b, j),
        },
    }
}

pub fn render(a: &ArrayRef, i: usize) -> String {
    let opts = arrow::util::display::FormatOptions::default().with_null("NULL");
    let r = vcommon::par::guard(|| match arrow::util::display::ArrayFormatter::try_new(a.as_ref(), &opts) {
        Ok(f) => f.value(i).try_to_string().unwrap_or_else(|e| format!("<unprintable: {e}>")),
        Err(e) => format!("<unprintable: {e}>"),
    });
    let s = r.unwrap_or_else(|p| format!("<display panicked: {p}>"));
    let s: String = s.chars().take(200).collect();
    if a.is_valid(i) && matches!(a.data_type(), DataType::Utf8 | DataType::LargeUtf8 | DataType::Utf8View) { format!("{s:?}") } else { s }
}

pub fn render_sv(v: &ScalarValue) -> String {
    match v.to_array() {
        Ok(a) => render(&a, 0),
        Err(_) => format!("{v:?}"),
    }
}

/// Self-test helper: the first non-NULL row becomes NULL (or, if all are NULL, nothing changes).
pub fn corrupt(a: &ArrayRef) -> Option<ArrayRef> {
    if a.data_type() == &DataType::Null {
        return None;
    }
    let r = (0..a.len()).find(|i| a.logical_nulls().map(|n| n.is_valid(*i)).unwrap_or(true))?;
    let mask = NullBuffer::from((0..a.len()).map(|i| i != r && a.is_valid(i)).collect::<Vec<bool>>());
    super::vals::with_nulls(a, Some(mask)).ok()
}
