//! `enc` — physically different representations of the same logical argument column.

use super::vals::{column, null_of, with_nulls};
use arrow::array::*;
use arrow::buffer::NullBuffer;
use arrow::datatypes::*;
use datafusion_common::ScalarValue;
use datafusion_expr::ColumnarValue;
use std::sync::Arc;

#[derive(Clone, Copy, Debug, PartialEq, Eq)]
pub enum Shape {
    /// freshly built, offset 0, validity buffer only if there are NULLs
    Plain,
    /// slice of a larger array: non-zero offset, unrelated rows before and after
    Sliced,
    /// validity buffer present although no row is NULL; non-default bytes under NULL slots otherwise
    Validity,
    /// dictionary with unused, permuted and duplicated values; NULLs as NULL keys
    DictShuffled,
    /// as `DictShuffled`, additionally some NULL rows are valid keys pointing at a NULL dictionary value
    DictNullValues,
    /// string view with many small data buffers, sliced
    ViewBuffers,
}

#[derive(Clone, Debug)]
pub struct ArgRep {
    /// physical type presented to the function
    pub ty: DataType,
    /// pass as `ColumnarValue::Scalar` (all rows must share the value)
    pub scalar: bool,
    pub shape: Shape,
}

impl ArgRep {
    pub fn plain(ty: &DataType) -> ArgRep {
        ArgRep { ty: ty.clone(), scalar: false, shape: Shape::Plain }
    }
}

fn cast_to(a: &ArrayRef, ty: &DataType) -> Result<ArrayRef, String> {
    if a.data_type() == ty {
        return Ok(a.clone());
    }
    arrow::compute::cast(a, ty).map_err(|e| format!("harness cast {} -> {}: {e}", a.data_type(), ty))
}

fn view_many_buffers(a: &ArrayRef) -> Result<ArrayRef, String> {
    match a.data_type() {
        DataType::Utf8View => {
            let s = a.as_string_view();
            let mut b = StringViewBuilder::new().with_fixed_block_size(16);
            for i in 0..s.len() {
                if s.is_null(i) {
                    b.append_null();
                } else {
                    b.append_value(s.value(i));
                }
            }
            Ok(Arc::new(b.finish()))
        }
        DataType::BinaryView => {
            let s = a.as_binary_view();
            let mut b = BinaryViewBuilder::new().with_fixed_block_size(16);
            for i in 0..s.len() {
                if s.is_null(i) {
                    b.append_null();
                } else {
                    b.append_value(s.value(i));
                }
            }
            Ok(Arc::new(b.finish()))
        }
        _ => Err("not a view type".into()),
    }
}

fn dict_shuffled(values: &[ScalarValue], canon: &DataType, target: &DataType, garbage: &[ScalarValue], null_values: bool) -> Result<ArrayRef, String> {
    let DataType::Dictionary(kt, vt) = target else { return Err("not a dictionary type".into()) };
    let n = values.len();
    let g = garbage.len().min(2);
    // dictionary values: [garbage.., reversed logical rows.., duplicates of the first two rows]
    let mut dv: Vec<ScalarValue> = garbage[..g].to_vec();
    dv.extend(values.iter().rev().cloned());
    let dups = n.min(2);
    dv.extend(values.iter().take(dups).cloned());
    let dvals = cast_to(&column(&dv, canon)?, vt)?;
    let mut keys: Vec<Option<i64>> = Vec::with_capacity(n);
    for (i, v) in values.iter().enumerate() {
        let pos = (g + (n - 1 - i)) as i64;
        if v.is_null() {
            if null_values && i % 2 == 1 { keys.push(Some(pos)) } else { keys.push(None) }
        } else if i < dups && i % 2 == 0 {
            keys.push(Some((g + n + i) as i64));
        } else {
            keys.push(Some(pos));
        }
    }
    let out: ArrayRef = match kt.as_ref() {
        DataType::Int32 => Arc::new(DictionaryArray::<Int32Type>::try_new(Int32Array::from_iter(keys.iter().map(|k| k.map(|x| x as i32))), dvals).map_err(|e| e.to_string())?),
        DataType::Int8 => {
            if g + n + dups > 120 {
                return Err("too many rows for Int8 keys".into());
            }
            Arc::new(DictionaryArray::<Int8Type>::try_new(Int8Array::from_iter(keys.iter().map(|k| k.map(|x| x as i8))), dvals).map_err(|e| e.to_string())?)
        }
        DataType::Int16 => Arc::new(DictionaryArray::<Int16Type>::try_new(Int16Array::from_iter(keys.iter().map(|k| k.map(|x| x as i16))), dvals).map_err(|e| e.to_string())?),
        DataType::UInt8 => Arc::new(DictionaryArray::<UInt8Type>::try_new(UInt8Array::from_iter(keys.iter().map(|k| k.map(|x| x as u8))), dvals).map_err(|e| e.to_string())?),
        other => return Err(format!("unsupported key type {other}")),
    };
    Ok(out)
}

/// Materialise one argument. `values` are logical values of the canonical type `canon`;
/// `garbage` are other non-null values of that type (used outside the slice / under NULLs).
pub fn materialize(values: &[ScalarValue], canon: &DataType, rep: &ArgRep, garbage: &[ScalarValue]) -> Result<ColumnarValue, String> {
    if rep.scalar {
        let v = values.first().cloned().unwrap_or_else(|| null_of(canon));
        debug_assert!(values.iter().all(|x| x == &v));
        let v = if &v.data_type() == &rep.ty { v } else { v.cast_to(&rep.ty).map_err(|e| format!("harness scalar cast: {e}"))? };
        return Ok(ColumnarValue::Scalar(v));
    }
    let n = values.len();
    let g0 = garbage.first().cloned().unwrap_or_else(|| null_of(canon));
    let g1 = garbage.get(1).cloned().unwrap_or_else(|| g0.clone());
    let arr: ArrayRef = match rep.shape {
        Shape::Plain => cast_to(&column(values, canon)?, &rep.ty)?,
        Shape::Sliced => {
            let mut ext = vec![g0.clone(), null_of(canon), g1.clone()];
            ext.extend(values.iter().cloned());
            ext.push(g1);
            ext.push(g0);
            let a = cast_to(&column(&ext, canon)?, &rep.ty)?;
            a.slice(3, n)
        }
        Shape::Validity => {
            if values.iter().any(|v| v.is_null()) {
                // non-default bytes under the NULL slots
                let filled: Vec<ScalarValue> = values.iter().enumerate().map(|(i, v)| if v.is_null() { if i % 2 == 0 { g0.clone() } else { g1.clone() } } else { v.clone() }).collect();
                let a = cast_to(&column(&filled, canon)?, &rep.ty)?;
                let nulls = NullBuffer::from(values.iter().map(|v| !v.is_null()).collect::<Vec<bool>>());
                match rep.ty {
                    DataType::Null => a,
                    _ => with_nulls(&a, Some(nulls))?,
                }
            } else {
                let mut ext = values.to_vec();
                ext.push(null_of(canon));
                let a = cast_to(&column(&ext, canon)?, &rep.ty)?;
                a.slice(0, n)
            }
        }
        Shape::DictShuffled => dict_shuffled(values, canon, &rep.ty, garbage, false)?,
        Shape::DictNullValues => dict_shuffled(values, canon, &rep.ty, garbage, true)?,
        Shape::ViewBuffers => {
            let mut ext = vec![g0.clone(), g1.clone()];
            ext.extend(values.iter().cloned());
            ext.push(g0);
            let a = cast_to(&column(&ext, canon)?, &rep.ty)?;
            view_many_buffers(&a)?.slice(2, n)
        }
    };
    if arr.len() != n {
        return Err(format!("harness built {} rows instead of {n}", arr.len()));
    }
    Ok(ColumnarValue::Array(arr))
}

/// How the rows are cut into invocations.
#[derive(Clone, Debug, PartialEq)]
pub enum Split {
    Whole,
    RowByRow,
    Chunks(Vec<usize>),
}

impl Split {
    pub fn ranges(&self, n: usize) -> Vec<(usize, usize)> {
        match self {
            Split::Whole => vec![(0, n)],
            Split::RowByRow => (0..n).map(|i| (i, 1)).collect(),
            Split::Chunks(cs) => {
                let mut out = vec![];
                let mut at = 0;
                for c in cs {
                    let c = (*c).min(n - at);
                    if c > 0 {
                        out.push((at, c));
                        at += c;
                    }
                }
                if at < n {
                    out.push((at, n - at));
                }
                out
            }
        }
    }
}

/// A full representation of an invocation: per-argument encodings plus the batch split.
#[derive(Clone, Debug)]
pub struct Rep {
    /// transform label (goes into the violation signature)
    pub label: String,
    pub args: Vec<ArgRep>,
    pub split: Split,
}

impl Rep {
    pub fn canonical(types: &[DataType]) -> Rep {
        Rep { label: "canonical".into(), args: types.iter().map(ArgRep::plain).collect(), split: Split::Whole }
    }
    pub fn describe(&self) -> String {
        let a: Vec<String> = self.args.iter().map(|a| format!("{}{}{}", a.ty, if a.scalar { "/scalar" } else { "/array" }, if a.shape == Shape::Plain { String::new() } else { format!("/{:?}", a.shape) })).collect();
        format!("{} [{}] split={:?}", self.label, a.join(", "), self.split)
    }
}
