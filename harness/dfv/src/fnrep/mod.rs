//! `fnrep` — scalar-function representation engine shared by C32 (representation independence)
//! and C45 (FFI parity): function registry enumeration with a by-name skip list, accepted argument
//! type lists derived from `Signature`s, typed value pools, physically different encodings of the
//! same logical column (`enc` of DESIGN §3.7) and a guarded `invoke_with_args` wrapper.

pub mod enc;
pub mod inv;
pub mod types;
pub mod vals;

use datafusion::prelude::SessionContext;
use datafusion_expr::{ScalarUDF, Volatility};
use std::collections::BTreeMap;
use std::sync::Arc;

#[derive(Clone)]
pub struct FnEntry {
    /// unique label: `name` for the default registry, `spark:name` for the Spark registry
    pub label: String,
    /// "core" | "nested" | "spark"
    pub registry: &'static str,
    pub udf: Arc<ScalarUDF>,
}

/// Functions excluded BY NAME, with the reason printed in evidence.
pub const SKIP_BY_NAME: &[(&str, &str)] = &[
    // volatile / time dependent
    ("random", "volatile"),
    ("uuid", "volatile"),
    ("now", "time-dependent (now family; simplified at planning time)"),
    ("current_date", "time-dependent (now family; simplified at planning time)"),
    ("current_time", "time-dependent (now family; simplified at planning time)"),
    ("current_timestamp", "time-dependent (now family; simplified at planning time)"),
    ("today", "time-dependent (now family; simplified at planning time)"),
    ("spark:rand", "volatile"),
    ("spark:randn", "volatile"),
    ("spark:random", "volatile"),
    ("spark:uuid", "volatile"),
    ("spark:shuffle", "volatile"),
    ("spark:now", "time-dependent (now family)"),
    ("spark:current_date", "time-dependent (now family)"),
    ("spark:current_timestamp", "time-dependent (now family)"),
    ("spark:current_timezone", "session-dependent"),
    ("spark:monotonically_increasing_id", "depends on batch position by specification"),
    ("spark:spark_partition_id", "depends on partition by specification"),
    // documented to inspect / expose the physical type of the argument
    ("arrow_typeof", "inspects the physical type"),
    ("arrow_cast", "target physical type is an argument"),
    ("arrow_try_cast", "target physical type is an argument"),
    ("arrow_metadata", "inspects field metadata of the physical column"),
    ("arrow_field", "inspects the physical field"),
    ("version", "build-dependent constant"),
];

pub struct Registry {
    pub fns: Vec<FnEntry>,
    /// label -> reason
    pub skipped: BTreeMap<String, String>,
}

fn skip_reason(label: &str) -> Option<&'static str> {
    SKIP_BY_NAME.iter().find(|(n, _)| *n == label).map(|(_, r)| *r)
}

/// Default registry (core + nested, as a `SessionContext` exposes them) plus the Spark registry.
/// Aliases are folded into the primary name.
pub fn registry() -> Registry {
    let ctx = SessionContext::new();
    let state = ctx.state();
    let nested: std::collections::HashSet<String> =
        datafusion_functions_nested::all_default_nested_functions().iter().map(|f| f.name().to_string()).collect();
    let mut by_label: BTreeMap<String, FnEntry> = BTreeMap::new();
    for (_, udf) in state.scalar_functions().iter() {
        let name = udf.name().to_string();
        let registry = if nested.contains(&name) { "nested" } else { "core" };
        by_label.entry(name.clone()).or_insert(FnEntry { label: name, registry, udf: udf.clone() });
    }
    for udf in datafusion_spark::all_default_scalar_functions() {
        let label = format!("spark:{}", udf.name());
        by_label.entry(label.clone()).or_insert(FnEntry { label, registry: "spark", udf });
    }
    let mut fns = vec![];
    let mut skipped = BTreeMap::new();
    for (label, e) in by_label {
        if let Some(r) = skip_reason(&label) {
            skipped.insert(label, r.to_string());
        } else if e.udf.signature().volatility == Volatility::Volatile {
            skipped.insert(label, "volatile (declared by its signature)".to_string());
        } else {
            fns.push(e);
        }
    }
    Registry { fns, skipped }
}

/// The string / unicode / regex / encoding / crypto families (most `unsafe` lives there): memcheck shard.
pub fn is_stringish(e: &FnEntry) -> bool {
    let sig = format!("{:?}", e.udf.signature().type_signature);
    let n = e.udf.name();
    let by_name = [
        "regexp", "like", "encode", "decode", "md5", "sha", "digest", "hex", "base64", "ascii", "chr", "concat", "trim", "pad", "upper", "lower",
        "initcap", "substr", "replace", "reverse", "repeat", "split", "strpos", "translate", "left", "right", "length", "levenshtein", "overlay", "find_in_set",
        "starts_with", "ends_with", "contains", "uuid", "to_hex", "bit_length", "instr", "soundex", "elt", "format", "luhn", "char", "space", "string", "url", "json", "xpath",
    ]
    .iter()
    .any(|k| n.contains(k));
    by_name || sig.contains("String(") || sig.contains("Utf8")
}
